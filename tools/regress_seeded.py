"""Regression over all seeded changes: apply each seeded/<id>/patch.diff to a scratch worktree of
/repo (outside /repo and /verif, removed afterwards), run the quick check(s) recorded in
meta.caught_by against it and report which are (still) caught. Development aid, not part of
any registered command.  usage: python tools/regress_seeded.py [ids...]  -> tools/regress_seeded_results.json"""
import glob, json, os, subprocess, sys, tempfile, time

V = os.path.dirname(os.path.dirname(os.path.abspath(__file__)))
PY = sys.executable


def sh(cmd):
    return subprocess.run(cmd, shell=True, capture_output=True, text=True)


def main():
    ids = sys.argv[1:] or sorted(os.path.basename(d) for d in glob.glob(os.path.join(V, "seeded", "*")) if os.path.exists(os.path.join(d, "meta.json")))
    out = {}
    for sid in ids:
        d = os.path.join(V, "seeded", sid)
        meta = json.load(open(os.path.join(d, "meta.json")))
        checks = meta.get("caught_by") or [meta["property"]]
        wt = tempfile.mkdtemp(prefix="regwt_")
        os.rmdir(wt)
        r = sh(f"git -C /repo worktree add -f --detach {wt} HEAD")
        rec = {"expected": meta.get("caught_by"), "results": {}}
        try:
            a = sh(f"git -C {wt} apply {d}/patch.diff")
            if a.returncode != 0:
                a = sh(f"git -C {wt} apply --3way {d}/patch.diff")
            if a.returncode != 0:
                rec["patch_error"] = a.stderr[-300:]
            else:
                for pid in checks:
                    rd = tempfile.mkdtemp(prefix="regrep_")
                    e = dict(os.environ, HOSTSIM_REPO_SRC=f"{wt}/src", HOSTSIM_REPLAY_DIR=rd)
                    e.pop("HOSTSIM_REEXEC", None)
                    e.pop("PYTHONPATH", None)
                    t0 = time.time()
                    p = subprocess.run([PY, "-m", f"checks.{pid.lower()}", "--tier", "quick", "--no-evidence"], cwd=V, env=e, capture_output=True, text=True)
                    nv = sum(1 for l in p.stdout.splitlines() if l.startswith("VIOLATION"))
                    summ = [l for l in p.stdout.splitlines() if " quick: runs=" in l]
                    rec["results"][pid] = {"exit": p.returncode, "violation_lines": nv, "summary": summ[-1] if summ else p.stdout[-200:], "wall": round(time.time() - t0, 1)}
                    sh(f"rm -rf {rd}")
        finally:
            sh(f"git -C /repo worktree remove --force {wt}")
            sh("git -C /repo worktree prune")
        rec["caught_now"] = [k for k, v in rec["results"].items() if v["exit"] == 1]
        out[sid] = rec
        status = "OK" if (bool(rec["caught_now"]) == bool(meta.get("caught_by"))) else "REGRESSION"
        print(sid, status, "expected", meta.get("caught_by"), "now", rec["caught_now"], rec.get("patch_error", ""), flush=True)
        json.dump(out, open(os.path.join(V, "tools", "regress_seeded_results.json"), "w"), indent=1)
    bad = [k for k, v in out.items() if bool(v["caught_now"]) != bool(v["expected"])]
    print("REGRESSIONS:", bad)


if __name__ == "__main__":
    main()
