"""Confirm a seeded change produced by a sub-agent and record it under /verif/seeded/.

usage: python tools/confirm_seeded.py <dir with patch.diff demo.py meta.json> <seeded id> [check ids...]
Steps (all in a scratch git worktree of /repo outside /repo and /verif, removed afterwards):
 1. demo on the unchanged tree must PASS; 2. patch must apply; 3. demo with the change must FAIL;
 4. the repository's test suite with the change must give the baseline result;
 5. the given checks (default: the property's own check) are run against the changed tree.
"""
import json, os, shutil, subprocess, sys, tempfile, re

V = os.path.dirname(os.path.dirname(os.path.abspath(__file__)))
PY = sys.executable


def sh(cmd, **kw):
    return subprocess.run(cmd, shell=True, capture_output=True, text=True, **kw)


def main():
    src, sid = os.path.abspath(sys.argv[1]), sys.argv[2]
    meta = json.load(open(os.path.join(src, "meta.json")))
    prop = meta.get("property", sid[:3])
    pids = sys.argv[3:] or [prop]
    wt = tempfile.mkdtemp(prefix="seedwt_")
    os.rmdir(wt)
    r = sh(f"git -C /repo worktree add -f --detach {wt} HEAD")
    assert r.returncode == 0, r.stderr
    rec = {"property": prop, "seeded_id": sid, "agent_meta": meta, "ran": {}}
    try:
        env = dict(os.environ, PYTHONPATH=f"{wt}/src", PYTHONDONTWRITEBYTECODE="1", OPENBLAS_NUM_THREADS="1")
        env.pop("HOSTSIM_REEXEC", None)
        demo = os.path.join(src, "demo.py")
        r0 = subprocess.run(["timeout", "600", PY, demo], cwd=wt, env=env, capture_output=True, text=True)
        rec["ran"]["demo_unchanged"] = {"exit": r0.returncode, "tail": (r0.stdout + r0.stderr)[-300:]}
        ra = sh(f"git -C {wt} apply {os.path.join(src, 'patch.diff')}")
        if ra.returncode != 0:
            # the repository has moved on since the patch was written (later fix: commits)
            ra = sh(f"git -C {wt} apply --3way {os.path.join(src, 'patch.diff')}")
        rec["ran"]["patch_applies"] = ra.returncode == 0
        if ra.returncode != 0:
            rec["ran"]["patch_error"] = ra.stderr[-500:]
            print(json.dumps(rec, indent=1))
            return rec
        r1 = subprocess.run(["timeout", "600", PY, demo], cwd=wt, env=env, capture_output=True, text=True)
        rec["ran"]["demo_changed"] = {"exit": r1.returncode, "tail": (r1.stdout + r1.stderr)[-400:]}
        if "--skip-suite" not in os.environ.get("SEED_OPTS", ""):
            rs = subprocess.run(
                ["timeout", "2400", PY, "-m", "pytest", "-q", "-p", "no:cacheprovider", "--timeout=900", "--continue-on-collection-errors", "tests"],
                cwd=wt, env=env, capture_output=True, text=True)
            tail = rs.stdout.strip().splitlines()[-1] if rs.stdout.strip() else ""
            failed = sorted(set(re.findall(r"^FAILED (\S+)", rs.stdout, flags=re.M)))
            rec["ran"]["suite_changed"] = {"summary": tail, "failed": failed,
                                           "same_as_baseline": all(f.startswith("tests/test_sample_simple_cur.py") for f in failed) and " passed" in tail}
        # the checks against the changed tree
        res = {}
        for pid in pids:
            e2 = dict(os.environ, HOSTSIM_REPO_SRC=f"{wt}/src")
            e2.pop("HOSTSIM_REEXEC", None); e2.pop("PYTHONPATH", None)
            p = subprocess.run([PY, "-m", f"checks.{pid.lower()}", "--tier", "quick", "--no-evidence"], cwd=V, env=e2, capture_output=True, text=True)
            viol = [l for l in p.stdout.splitlines() if l.startswith("VIOLATION")]
            clauses = {}
            for l in p.stdout.splitlines():
                if l.startswith("  clause="):
                    c = l.split("clause=")[1].split(" ")[0]
                    clauses[c] = clauses.get(c, 0) + 1
            summ = [l for l in p.stdout.splitlines() if l.startswith(pid + " quick")]
            res[pid] = {"exit": p.returncode, "violations": len(viol), "clauses": clauses, "summary": summ[-1] if summ else p.stdout[-300:],
                        "example": next((l.strip()[:400] for l in p.stdout.splitlines() if l.startswith("  clause=")), None)}
            # keep one minimised replay as the witness of detection
            if viol:
                rp = viol[0].split("replay=")[1]
                dst = os.path.join(V, "seeded", sid)
                os.makedirs(dst, exist_ok=True)
                shutil.copy(rp, os.path.join(dst, f"detected_by_{pid}.replay.json"))
            shutil.rmtree(os.path.join(V, "replays", pid), ignore_errors=True)
        rec["ran"]["checks_against_change"] = res
        rec["caught_by"] = [p for p, r in res.items() if r["exit"] == 1]
    finally:
        sh(f"git -C /repo worktree remove --force {wt}")
        sh("git -C /repo worktree prune")
    ok = (rec["ran"].get("demo_unchanged", {}).get("exit") == 0 and rec["ran"].get("patch_applies")
          and rec["ran"].get("demo_changed", {}).get("exit") not in (0, None)
          and rec["ran"].get("suite_changed", {}).get("same_as_baseline", True))
    rec["confirmed"] = bool(ok)
    if ok:
        dst = os.path.join(V, "seeded", sid)
        os.makedirs(dst, exist_ok=True)
        shutil.copy(os.path.join(src, "patch.diff"), dst)
        shutil.copy(demo, dst)
        out = {"property": prop, "title": meta.get("title"), "what_it_breaks": meta.get("what_it_breaks"),
               "needs_to_manifest": meta.get("needs_to_manifest"), "files": meta.get("files"),
               "confirmed_by_me": rec["ran"], "caught_by": rec.get("caught_by", [])}
        json.dump(out, open(os.path.join(dst, "meta.json"), "w"), indent=1)
    print(json.dumps({k: v for k, v in rec.items() if k != "agent_meta"}, indent=1)[:3000])
    return rec


if __name__ == "__main__":
    main()
