"""Writes /verif/MANIFEST.json from one place (keeps it valid and consistent)."""
import json, os
V = "/verif"
PY = "/venv/bin/python"
NA = {
 "C02": "pure function of one cold fit's arguments (X, y, mixing, initialize, n); the 'random' start is an integer-seeded RandomState; no schedule, clock, fault or history can change any clause - needs an input generator + algebraic oracle (property-based testing), not simulation (DESIGN 6)",
 "C03": "linear-algebra identity between computational routes of one call; truncated solvers draw start vectors but the claim is numerical accuracy of one call, not a schedule/history statement (DESIGN 6)",
 "C04": "variational optimality over competitor subspaces; stateless, no environment input (DESIGN 6)",
 "C05": "identities between calls with different explicit arguments (kernel plumbing, held-out score); input-only (DESIGN 6)",
 "C07": "per-step algebra of one fit (leverage scores on the residual); ARPACK start vectors perturb scores at rounding level only, which C08/C09 already control (DESIGN 6)",
 "C11": "pure function of (X, weights, flags) (DESIGN 6)",
 "C12": "algebraic identity of kernel centring; no state or environment (DESIGN 6)",
 "C13": "algebraic identities/invariances of the reconstruction measures; the joblib seam inside LRE cannot change a stated clause when tasks are atomic, and its schedule independence is exercised under C09 (DESIGN 6)",
 "C14": "projector identities on one fitted object; no history (DESIGN 6)",
 "C15": "metric laws of a pure function (DESIGN 6)",
 "C16": "pure function of (points, weights, cut-offs); stderr progress output only prints (DESIGN 6)",
 "C17": "pure function of (descriptors, weights, grid, query); lazy caches are a refit-history concern checked under C09 (DESIGN 6)",
 "C18": "variational (Procrustes) optimality; stateless (DESIGN 6)",
 "C19": "computational geometry on one input (DESIGN 6)",
 "C20": "closed-form pure function (DESIGN 6)",
}
def check(pid, mod, text, note, technique, ref):
    return {
        "property_id": pid,
        "quick_cmd": f"cd {V} && {PY} -m checks.{mod} --tier quick",
        "thorough_cmd": f"cd {V} && {PY} -m checks.{mod} --tier thorough",
        "evidence_file": f"{V}/evidence/{pid}.json",
        "replay_cmd_template": f"cd {V} && {PY} -m checks.{mod} --replay {{path}}",
        "engine": "hostsim",
        "level_claimed": {"category": "exploration", "text": text, "design_ref": ref},
        "level_note": note,
        "technique": technique,
    }
TB = ("trusted: numpy/scipy/scikit-learn/joblib/tqdm as installed in /venv; the reference models in sim/refmodels.py; "
      "the tie/rounding model (tau derived from operand magnitudes, written into the evidence); fits and joblib tasks are atomic w.r.t. each other (no caller threads).")
checks = [
 check("C01", "c01",
  "Seeded search over operation-and-fault histories on one or two selector objects (cold fits, warm-start chains in every n_to_select form, threshold stops, FPS index-list initialisation, pickle restart, interleaved objects; clock/ARPACK/RNG/stderr faults), all nine selector classes, nine data kinds incl. rank-deficient/duplicated/badly scaled; after every successful fit all public views of the selection are cross-checked. Sampling, not proof: evidence bounded by the stated sizes.",
  TB, "deterministic simulation (hostsim): seeded operation/fault histories + cross-view invariant oracle", "DESIGN 4"),
 check("C06", "c06",
  "VoronoiFPS is run under a virtual wall clock owned by the simulator (normal, frozen, coarse, backward step, jump, stall, raw scripts and an adversarial script that forces each of the 7 bisection comparisons, i.e. every one of the 128 calibration outcomes on demand) with warm-start chains, cold refits of the same object, pickle restarts, data at length scales 2^-30..2^20 and initial indices counted from either end; after every greedy step the choice and the whole distance table are compared with a brute-force O(n^2) farthest-point reference (tie aware), identical histories under different clocks are compared, and a cap on clock reads bounds the calibration's liveness.",
  TB, "deterministic simulation (hostsim): virtual clock fault injection + step-wise brute-force FPS reference model", "DESIGN 3"),
 check("C08", "c08",
  "Warm-start chains (sampled increasing schedules with jumps, every n_to_select form; all 2^(n-1) schedules for n<=6 on sampled inputs in the thorough tier), unreached thresholds set mid-chain, pickle restarts, interleaved objects, FPS initialised with a selected prefix, under clock/ARPACK/RNG faults; after every fit the object is compared (sequence, stored data, scores, distance tables) with a history-free twin: the same class cold-fitted in a quiet environment on fresh copies, modulo reference ties.",
  TB, "deterministic simulation (hostsim): seeded warm-start/restart histories vs. history-free twin (differential between histories)", "DESIGN 4"),
 check("C10", "c10",
  "Ridge2FoldCV is fitted with the joblib backend replaced by a simulated one (tasks executed in seeded order, batched, on pickled copies like a worker process, twice with the first result dropped, or in real threads whose line-level interleaving is decided by the seed; n_jobs in {None,1,2,3}) and with the ambient RNG that draws the folds owned by the simulator; cv_values_, alpha_, best_score_, coef_ and predict are compared with an explicit two-fold Tikhonov / cut-off least-squares model in plain numpy on the folds actually used, identical configurations under different schedules must agree, and a refit after the caller overwrote its X/y buffers in place is judged on the new values. The simulated surface is the task schedule and the RNG; a defect independent of both is found by the reference model, not by fault injection (stated in DESIGN 5.2).",
  TB + " Rank decisions use LAPACK singular values; traces with a singular value within a factor 3 of the documented cut are not judged.",
  "deterministic simulation (hostsim): simulated joblib schedule + owned RNG, explicit two-fold reference model", "DESIGN 5.2"),
 check("C09", "c09",
  "A simulated host process around every public estimator class and function: caller arrays live on a snapshotted heap (C, F, strided view in a canary-guarded buffer, read-only, read-only memmap) and are byte-compared after every event - including after KeyboardInterrupt/MemoryError injected at an arbitrary skmatter line and after stderr faults - and for sampled calls at EVERY line event of the call (crash-point enumeration) - so a modify-then-restore pattern is visible; get_params is compared after every fit under every clock; two- and three-step refit histories (other shape, with/without y, weighted/unweighted, the caller's buffer overwritten in place, reads in between, pickle restart; float64/float32/int64 inputs) are compared attribute by attribute and read by read with a fresh twin that performs bit-identical arithmetic (same memory layout, same RNG/clock/ARPACK scripts); the same call is repeated under a different clock, ambient RNG, ARPACK start vectors, joblib schedule; fit returns self; fit_transform equals fit().transform().",
  TB + " After an injected fault inside fit only heap integrity and parameter stability are demanded (object retired).",
  "deterministic simulation (hostsim): snapshotted caller heap + crash-point/stderr/clock/RNG/ARPACK/joblib fault injection + history-free twin", "DESIGN 5.1"),
]
claimed = {c["property_id"] for c in checks}
extra = os.path.join(V, "tools", "manifest_extra.json")
if os.path.exists(extra):
    for c in json.load(open(extra)):
        checks.append(check(*c)); claimed.add(c[0])
man = {
 "version": 1,
 "setup_cmd": f"cd {V} && {PY} -c \"import numpy, scipy, sklearn, joblib, cloudpickle, tqdm; print('hostsim deps ok')\"",
 "hooks": {
   "guard": "SKMATTER_VERIF (unused: no hook was added to /repo; every seam is an existing module-level name, a public registry or an interpreter facility)",
   "enable": "nothing to enable; checks import skmatter from /repo/src (PYTHONPATH) and patch seams at run time",
   "baseline_off_cmd": "cd /repo && /venv/bin/python -m pytest -ra -q -p no:cacheprovider --timeout=900 --continue-on-collection-errors",
   "source_commits": [],
   "add_only": True,
 },
 "engines": [{"name": "hostsim", "path": f"{V}/sim", "serves_properties": sorted(claimed),
              "kind_free_text": "single-process deterministic host simulator with fault injection: virtual clock, scripted joblib backend, owned RNG/ARPACK state, fault-injecting stderr, line-level interruption, snapshotted caller heap; seeded trace generation, fork-per-run execution, ddmin minimiser, replay files"}],
 "checks": checks,
 "not_applicable": [{"property_id": k, "reason": v} for k, v in sorted(NA.items()) if k not in claimed],
 "notes": "Technique family: deterministic simulation with fault injection. 15 properties are pure functions of their call arguments and are honestly not applicable (DESIGN 1.1, 6). Genuine defects found: known_findings.json.",
}
json.dump(man, open(os.path.join(V, "MANIFEST.json"), "w"), indent=1)
print("checks:", sorted(claimed), "na:", len(man["not_applicable"]))
