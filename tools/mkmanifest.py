"""Writes /verif/MANIFEST.json from one place (keeps it valid and consistent)."""
import json, os
V = "/verif"
PY = "/venv/bin/python"
NA = {
 "C02": "pure function of one cold fit's arguments (X, y, mixing, initialize, n); the 'random' start is an integer-seeded RandomState; no schedule, clock, fault or history can change any clause - needs an input generator + algebraic oracle (property-based testing), not simulation (DESIGN 6)",
 "C03": "linear-algebra identity between computational routes of one call; truncated solvers draw start vectors but the claim is numerical accuracy of one call, not a schedule/history statement (DESIGN 6)",
 "C04": "variational optimality over competitor subspaces; stateless, no environment input (DESIGN 6)",
 "C05": "identities between calls with different explicit arguments (kernel plumbing, held-out score); input-only (DESIGN 6)",
 "C07": "per-step algebra of one fit (leverage scores on the residual); ARPACK start vectors perturb scores at rounding level only, which C08/C09 already control (DESIGN 6)",
 "C11": "pure function of (X, weights, flags) (DESIGN 6)",
 "C12": "algebraic identity of kernel centring; no state or environment (DESIGN 6)",
 "C13": "algebraic identities/invariances of the reconstruction measures; the joblib seam inside LRE cannot change a stated clause when tasks are atomic, and its schedule independence is exercised under C09 (DESIGN 6)",
 "C14": "projector identities on one fitted object; no history (DESIGN 6)",
 "C15": "metric laws of a pure function (DESIGN 6)",
 "C16": "pure function of (points, weights, cut-offs); stderr progress output only prints (DESIGN 6)",
 "C17": "pure function of (descriptors, weights, grid, query); lazy caches are a refit-history concern checked under C09 (DESIGN 6)",
 "C18": "variational (Procrustes) optimality; stateless (DESIGN 6)",
 "C19": "computational geometry on one input (DESIGN 6)",
 "C20": "closed-form pure function (DESIGN 6)",
}
def check(pid, mod, text, note, technique, ref):
    return {
        "property_id": pid,
        "quick_cmd": f"cd {V} && {PY} -m checks.{mod} --tier quick",
        "thorough_cmd": f"cd {V} && {PY} -m checks.{mod} --tier thorough",
        "evidence_file": f"{V}/evidence/{pid}.json",
        "replay_cmd_template": f"cd {V} && {PY} -m checks.{mod} --replay {{path}}",
        "engine": "hostsim",
        "level_claimed": {"category": "exploration", "text": text, "design_ref": ref},
        "level_note": note,
        "technique": technique,
    }
TB = ("trusted: numpy/scipy/scikit-learn/joblib/tqdm as installed in /venv; the reference models in sim/refmodels.py; "
      "the tie/rounding model (tau derived from operand magnitudes, written into the evidence); fits and joblib tasks are atomic w.r.t. each other (no caller threads).")
checks = [
 check("C01", "c01",
  "Seeded search over operation-and-fault histories on one or two selector objects (cold fits, warm-start chains in every n_to_select form, threshold stops, FPS index-list initialisation, pickle restart, interleaved objects, public reads between fits, re-parameterised cold refits, continuations that ask for no more than is selected, the caller overwriting its X in place before a cold refit, re-parameterisation through set_params as well as attribute assignment, fits through fit_transform with the caller rescaling the returned array in place, cold refits on larger other data and on the same X with other targets; the invariants of the last successful fit are re-checked after a cold refit that fit() rejects before touching anything and after the caller reorders the index array it had passed as initialize; clock/ARPACK start-vector/ARPACK and LAPACK no-convergence/RNG faults, an ambient joblib configuration, stderr faults that land in the middle of a search because tqdm's redraw timer is simulated too, and KeyboardInterrupt/MemoryError at an arbitrary line of a fit followed by a cold refit of the partially fitted object), all nine selector classes, nine data kinds incl. rank-deficient/duplicated/badly scaled, float32/int64 callers' arrays, n_to_select as int/float/None/numpy scalars/Fraction incl. fractions whose product with n is exactly an integer, and magnitudes whose squares overflow or underflow; after every successful fit all public views of the selection are cross-checked. Sampling, not proof: evidence bounded by the stated sizes.",
  TB, "deterministic simulation (hostsim): seeded operation/fault histories + cross-view invariant oracle", "DESIGN 4"),
 check("C06", "c06",
  "VoronoiFPS is run under a virtual wall clock owned by the simulator (normal, frozen, coarse, backward step, jump, stall, raw scripts and an adversarial script that forces each of the 7 bisection comparisons, i.e. every one of the 128 calibration outcomes on demand) with warm-start chains (also with the switching point re-parameterised between two fits), cold refits of the same object (also after a fit that crashed at an arbitrary line, and after the caller overwrote X in place), pickle restarts, unreached absolute score thresholds, searches of up to 140 samples, data at length scales 2^-30..2^20, initial indices counted from either end and the default random_state under a different ambient RNG state per lane; the lanes (2-4 objects on the same data under different clocks and ambient joblib configurations) are interleaved in part of the runs, so one object's fits happen between two fits of another's chain; a shallow copy of the fitted selector is refitted between two fits of the original; a cold refit that the library rejects (invalid parameter, no fault) is followed by a continuation; a few searches cross 256 selections; a re-selected sample is never accepted as a zero-distance tie; with initialize='random' the first selection must be the one draw of the generator random_state denotes (integer seed, the caller's instance, or the ambient generator, all owned by the simulator); all 128 forced calibration outcomes on sampled inputs in both tiers; after every greedy step the choice and the whole distance table are compared with a brute-force O(n^2) farthest-point reference (tie aware), identical histories under different clocks are compared, and a cap on clock reads bounds the calibration's liveness.",
  TB, "deterministic simulation (hostsim): virtual clock fault injection + step-wise brute-force FPS reference model", "DESIGN 3"),
 check("C08", "c08",
  "Warm-start chains (sampled increasing schedules with jumps, every n_to_select form; all 2^(n-1) schedules for n<=6 on sampled inputs in both tiers, n<=7 in thorough), unreached thresholds set mid-chain or at construction, thresholds that only the first fit misses and that are lowered before the continuation, float64 and float32 data in the caller's memory layout (C/F/strided/read-only; tolerances in the working precision), pickle/deepcopy restarts, interleaved objects, public reads between the fits, continuation on an equal-valued copy after the caller reused the fitted buffer, FPS initialised with a selected prefix, warm start on a never-fitted selector and after a first fit that failed before selecting anything (must be rejected), a continuation after a cold refit that the library rejected while the object still reports its selections, a second selector of the class fitted on the first one's buffer after the caller refilled it (reference fits isolated in a forked child), a second cold fit of the same object before the chain continues, a truncated SVD that does not converge inside a CUR fit, under clock/ARPACK/RNG faults and ambient joblib configurations; after every fit the object is compared (sequence, stored data, scores, distance tables) with a history-free twin: the same class cold-fitted in a quiet environment on fresh copies with the memory layout of the history's own cold fit, modulo reference ties.",
  TB, "deterministic simulation (hostsim): seeded warm-start/restart histories vs. history-free twin (differential between histories)", "DESIGN 4"),
 check("C10", "c10",
  "Ridge2FoldCV is fitted with the joblib backend replaced by a simulated one (tasks executed in seeded order, batched, on pickled copies like a worker process, twice with the first result dropped, or in real threads whose line-level interleaving is decided by the seed; n_jobs in {None,1,2,3}) and with the ambient RNG that draws the folds owned by the simulator; cv_values_, alpha_, best_score_, coef_ and predict are compared with an explicit two-fold Tikhonov / cut-off least-squares model in plain numpy on the folds actually used, identical configurations under different schedules must agree, a refit after the caller overwrote its X/y buffers in place is judged on the new values, a refit after set_params (scorer, grid, alpha type, filter, folds, n_jobs) is judged on the new parameters, an earlier estimator with other fold parameters is fitted on data of the same size, one of the three SVDs may fail to converge (LinAlgError) before a refit, default folds that the implementation did not draw through the observed seam are predicted, and where the assignment is specified (no shuffling or an integer seed) the folds used must be the first split of KFold(2, shuffle, random_state); predict on the buffer the caller refilled after fitting; every estimator's report (private copies) is read again at the end of the trace after the caller refilled its grid array and a shallow copy was refitted on a new batch; data exactly rescaled by 2^-30..2^30 with the numerical rank taken relative to the largest singular value; integer-typed grids; folds as index arrays, boolean masks, one-shot generators and KFold objects; float64 and float32 X (rank cut, domain band and tolerances in X's precision). The simulated surface is the task schedule and the RNG; a defect independent of both is found by the reference model, not by fault injection (stated in DESIGN 5.2).",
  TB + " Rank decisions use LAPACK singular values; traces with a singular value within a factor 3 of the documented cut are not judged.",
  "deterministic simulation (hostsim): simulated joblib schedule + owned RNG, explicit two-fold reference model", "DESIGN 5.2"),
 check("C09", "c09",
  "A simulated host process around every public estimator class and function: caller arrays live on a snapshotted heap (C, F, strided view in a canary-guarded buffer, read-only, read-only memmap) and are byte-compared after every event - including after KeyboardInterrupt/MemoryError injected at an arbitrary skmatter line and after stderr faults - and for sampled calls at EVERY line event of the call (crash-point enumeration) - so a modify-then-restore pattern is visible; get_params is compared after every fit under every clock; two- and three-step refit histories (other shape, with/without y, weighted/unweighted, the caller's buffer overwritten in place, reads in between, pickle restart, re-parameterisation by set_params/setattr between the fits; float64/float32/int64 inputs; index-valued parameters counted from either end) are compared attribute by attribute and read by read with a fresh twin that performs bit-identical arithmetic (same memory layout, same RNG/clock/ARPACK scripts); the same call is repeated under a different clock, ambient RNG, ARPACK start vectors, joblib schedule; an ARPACK or dense LAPACK call that does not converge inside fit (PCovR/KernelPCovR, CUR, PCov-CUR, OrthogonalRegression, Ridge2FoldCV, SparseKernelCenterer; PCovR's LinAlgError fallback is thereby exercised) is followed by reads and a refit; np.seterr / sklearn.set_config must be unchanged after every call; estimator-valued hyper-parameters must not be fitted in place; Ridge2FoldCV tasks also as seeded shared-memory threads; writable memory maps and ndarray subclasses as caller storage; results of the metric functions kept as private copies and compared after an estimator using the same metric was fitted on the same points; another object's dict-valued parameter edited in place between two repetitions; hyper-parameters of estimator objects handed to the metric functions unchanged after the call, also when a local fit fails; parameters hidden from get_params included; a caller array that comes back read-only counts as modified; SparseKDE re-parameterised onto other descriptors; structures as one 3-D array; the same read is repeated on the same fitted object after other reads, after another object of the class was fitted, after a pickle round trip and after the caller reused the arrays it had passed to fit; fit returns self; fit_transform equals fit().transform().",
  TB + " After an injected fault inside fit only heap integrity and parameter stability are demanded (object retired).",
  "deterministic simulation (hostsim): snapshotted caller heap + crash-point/stderr/clock/RNG/ARPACK/joblib fault injection + history-free twin", "DESIGN 5.1"),
]
claimed = {c["property_id"] for c in checks}
extra = os.path.join(V, "tools", "manifest_extra.json")
if os.path.exists(extra):
    for c in json.load(open(extra)):
        checks.append(check(*c)); claimed.add(c[0])
man = {
 "version": 1,
 "setup_cmd": f"cd {V} && {PY} -c \"import numpy, scipy, sklearn, joblib, cloudpickle, tqdm; print('hostsim deps ok')\"",
 "hooks": {
   "guard": "SKMATTER_VERIF (unused: no hook was added to /repo; every seam is an existing module-level name, a public registry or an interpreter facility)",
   "enable": "nothing to enable; checks import skmatter from /repo/src (PYTHONPATH) and patch seams at run time",
   "baseline_off_cmd": "cd /repo && /venv/bin/python -m pytest -ra -q -p no:cacheprovider --timeout=900 --continue-on-collection-errors",
   "source_commits": [],
   "add_only": True,
 },
 "engines": [{"name": "hostsim", "path": f"{V}/sim", "serves_properties": sorted(claimed),
              "kind_free_text": "single-process deterministic host simulator with fault injection: virtual clock, scripted joblib backend, owned RNG/ARPACK state, fault-injecting stderr, line-level interruption, snapshotted caller heap; seeded trace generation, fork-per-run execution, ddmin minimiser, replay files"}],
 "checks": checks,
 "not_applicable": [{"property_id": k, "reason": v} for k, v in sorted(NA.items()) if k not in claimed],
 "notes": "Technique family: deterministic simulation with fault injection. 15 properties are pure functions of their call arguments and are honestly not applicable (DESIGN 1.1, 6). Genuine defects found: known_findings.json.",
}
json.dump(man, open(os.path.join(V, "MANIFEST.json"), "w"), indent=1)
print("checks:", sorted(claimed), "na:", len(man["not_applicable"]))
