"""Determinism self-test: the same VERIF_SEED must give the same per-run event-log
digests at different worker counts, under another PYTHONHASHSEED (fresh interpreter)
and when repeated. Usage: python tools/determinism.py [runs] [pids...]"""
import json, os, subprocess, sys, tempfile

V = os.path.dirname(os.path.dirname(os.path.abspath(__file__)))
runs = int(sys.argv[1]) if len(sys.argv) > 1 else 400
pids = sys.argv[2:] or ["c01", "c06", "c08", "c09", "c10"]
configs = [
    ("w16", {"HOSTSIM_WORKERS": "16"}),
    ("w16-again", {"HOSTSIM_WORKERS": "16"}),
    ("w3", {"HOSTSIM_WORKERS": "3"}),
    ("hash123", {"HOSTSIM_WORKERS": "7", "HOSTSIM_HASHSEED": "123"}),
]
ok = True
for pid in pids:
    res = {}
    for name, envx in configs:
        fd, path = tempfile.mkstemp(suffix=".json")
        os.close(fd)
        env = dict(os.environ)
        env.update(envx)
        env.pop("HOSTSIM_REEXEC", None)
        env.pop("PYTHONHASHSEED", None)
        p = subprocess.run(
            [sys.executable, "-m", f"checks.{pid}", "--runs", str(runs), "--no-evidence", "--digests", path, "--budget", "3000"],
            cwd=V, env=env, capture_output=True, text=True,
        )
        try:
            res[name] = json.load(open(path))
        except Exception:
            print(pid, name, "no digests", p.stdout[-500:], p.stderr[-500:])
            res[name] = None
        os.unlink(path)
    base = res["w16"]
    for name in res:
        same = res[name] == base
        n = len(base or [])
        diff = 0 if same or not base or not res[name] else sum(1 for a, b in zip(base, res[name]) if a != b)
        print(f"{pid} {name}: {'identical' if same else 'DIFFERENT'} ({n} runs, {diff} differing)")
        ok = ok and same
print("DETERMINISM", "OK" if ok else "BROKEN")
sys.exit(0 if ok else 1)
