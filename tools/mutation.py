"""Mutation analysis of the checks (development aid, not a registered command).

Generates AST-level mutants of anchored skmatter source files in scratch copies under
/tmp (never /repo), and for each mutant: (1) imports it, (2) runs the given quick checks
against it (reduced run counts, HOSTSIM_REPO_SRC), stopping at the first check that
reports a VIOLATION ("killed by check"); (3) only for mutants no check noticed, runs the
repository's own test suite: failing => "killed by tests" (uninteresting), passing =>
SURVIVOR (either an equivalent mutant or a hole in the checks: reviewed by hand).

usage: python tools/mutation.py <rel file> <checks comma sep> [--n 120] [--seed 1] [--jobs 6]
                                [--funcs a,b,c] [--runs 3000] [--out file.json]
"""
import argparse, ast, copy, json, os, random, shutil, subprocess, sys, tempfile, time
from concurrent.futures import ThreadPoolExecutor

V = os.path.dirname(os.path.dirname(os.path.abspath(__file__)))
PY = sys.executable
SWAP_CMP = {ast.Lt: ast.LtE, ast.LtE: ast.Lt, ast.Gt: ast.GtE, ast.GtE: ast.Gt, ast.Eq: ast.NotEq, ast.NotEq: ast.Eq}
SWAP_BIN = {ast.Add: ast.Sub, ast.Sub: ast.Add, ast.Mult: ast.Div, ast.Div: ast.Mult}
SWAP_NAME = {"minimum": "maximum", "maximum": "minimum", "argmax": "argmin", "argmin": "argmax", "max": "min", "min": "max",
             "zeros": "ones", "sum": "mean", "any": "all", "all": "any"}


class Site:
    def __init__(self, kind, lineno, desc, apply):
        self.kind, self.lineno, self.desc, self.apply = kind, lineno, desc, apply


def sites(tree, funcs):
    """Enumerate mutation sites; each site's apply(tree_copy_node) mutates in place.
    Nodes are addressed by their index in ast.walk order so that a deep copy can be mutated."""
    out = []
    nodes = list(ast.walk(tree))
    in_scope = set()
    for n in nodes:
        if isinstance(n, (ast.FunctionDef,)) and (not funcs or n.name in funcs):
            for k in ast.walk(n):
                in_scope.add(id(k))
    for i, n in enumerate(nodes):
        if id(n) not in in_scope:
            continue
        ln = getattr(n, "lineno", 0)
        if isinstance(n, ast.Compare) and len(n.ops) == 1 and type(n.ops[0]) in SWAP_CMP:
            out.append((i, "cmp", ln, f"{type(n.ops[0]).__name__}->{SWAP_CMP[type(n.ops[0])].__name__}"))
        elif isinstance(n, ast.BinOp) and type(n.op) in SWAP_BIN:
            out.append((i, "bin", ln, f"{type(n.op).__name__}->{SWAP_BIN[type(n.op)].__name__}"))
        elif isinstance(n, ast.Constant) and isinstance(n.value, bool):
            out.append((i, "bool", ln, f"{n.value}->{not n.value}"))
        elif isinstance(n, ast.Constant) and isinstance(n.value, int) and -3 <= n.value <= 16:
            out.append((i, "int+1", ln, f"{n.value}->{n.value + 1}"))
            if n.value > 0:
                out.append((i, "int-1", ln, f"{n.value}->{n.value - 1}"))
        elif isinstance(n, ast.Constant) and isinstance(n.value, float):
            out.append((i, "float*2", ln, f"{n.value}->{n.value * 2}"))
        elif isinstance(n, ast.Attribute) and n.attr in SWAP_NAME and isinstance(n.ctx, ast.Load):
            out.append((i, "name", ln, f".{n.attr}->.{SWAP_NAME[n.attr]}"))
        elif isinstance(n, ast.Call) and isinstance(n.func, ast.Attribute) and n.func.attr == "copy" and not n.args:
            out.append((i, "nocopy", ln, "x.copy()->x"))
        elif isinstance(n, ast.If):
            out.append((i, "ifnot", ln, "if c -> if not c"))
        elif isinstance(n, (ast.Assign, ast.AugAssign)) or (isinstance(n, ast.Expr) and isinstance(n.value, ast.Call)):
            out.append((i, "del", ln, "statement removed"))
        elif isinstance(n, ast.UnaryOp) and isinstance(n.op, ast.Not):
            out.append((i, "unnot", ln, "not c -> c"))
    return out


def mutate(src, idx, kind):
    tree = ast.parse(src)
    nodes = list(ast.walk(tree))
    n = nodes[idx]
    if kind == "cmp":
        n.ops[0] = SWAP_CMP[type(n.ops[0])]()
    elif kind == "bin":
        n.op = SWAP_BIN[type(n.op)]()
    elif kind == "bool":
        n.value = not n.value
    elif kind == "int+1":
        n.value = n.value + 1
    elif kind == "int-1":
        n.value = n.value - 1
    elif kind == "float*2":
        n.value = n.value * 2
    elif kind == "name":
        n.attr = SWAP_NAME[n.attr]
    elif kind in ("nocopy", "ifnot", "del", "unnot"):
        # replace the node inside its parent
        for p in nodes:
            for f, v in ast.iter_fields(p):
                if v is n:
                    setattr(p, f, _repl(n, kind))
                elif isinstance(v, list):
                    for j, x in enumerate(v):
                        if x is n:
                            v[j] = _repl(n, kind)
    ast.fix_missing_locations(tree)
    return ast.unparse(tree)


def _repl(n, kind):
    if kind == "nocopy":
        return n.func.value
    if kind == "ifnot":
        n.test = ast.UnaryOp(op=ast.Not(), operand=n.test)
        return n
    if kind == "unnot":
        return n.operand
    if kind == "del":
        return ast.Pass()
    return n


def run(cmd, env=None, cwd=None, timeout=1800):
    try:
        p = subprocess.run(cmd, env=env, cwd=cwd, capture_output=True, text=True, timeout=timeout)
        return p.returncode, p.stdout + p.stderr
    except subprocess.TimeoutExpired:
        return 124, "timeout"


def evaluate(job):
    k, rel, msrc, meta, checks, runs, workers = job
    d = tempfile.mkdtemp(prefix="hostsim_mut_")
    try:
        shutil.copytree("/repo/src", os.path.join(d, "src"))
        shutil.copytree("/repo/tests", os.path.join(d, "tests"))
        for f in ("pyproject.toml", "tox.ini", "setup.cfg", "conftest.py"):
            if os.path.exists(os.path.join("/repo", f)):
                shutil.copy(os.path.join("/repo", f), d)
        open(os.path.join(d, "src", "skmatter", rel), "w").write(msrc)
        env = dict(os.environ, PYTHONPATH=os.path.join(d, "src"), PYTHONDONTWRITEBYTECODE="1", OPENBLAS_NUM_THREADS="1")
        env.pop("HOSTSIM_REEXEC", None)
        rc, out = run([PY, "-c", "import skmatter, skmatter.feature_selection, skmatter.sample_selection, skmatter.linear_model, skmatter.decomposition, skmatter.preprocessing, skmatter.metrics, skmatter.neighbors, skmatter.clustering"], env=env, timeout=120)
        res = dict(meta, id=k)
        if rc != 0:
            res["verdict"] = "does_not_import"
            return res
        for pid in checks:
            e2 = dict(os.environ, HOSTSIM_REPO_SRC=os.path.join(d, "src"), HOSTSIM_REPLAY_DIR=os.path.join(d, "replays"), HOSTSIM_WORKERS=str(workers))
            e2.pop("HOSTSIM_REEXEC", None); e2.pop("PYTHONPATH", None)
            rc, out = run([PY, "-m", f"checks.{pid.lower()}", "--tier", "quick", "--no-evidence", "--runs", str(runs), "--budget", "240"], env=e2, cwd=V, timeout=900)
            cl = sorted({l.split("clause=")[1].split(" ")[0] for l in out.splitlines() if l.startswith("  clause=")})
            if rc == 1:
                res["verdict"] = "killed_by_check"; res["by"] = pid; res["clauses"] = cl
                return res
            if rc != 0:
                res.setdefault("harness", []).append({pid: out[-300:]})
        rc, out = run([PY, "-m", "pytest", "-q", "-x", "-p", "no:cacheprovider", "--timeout=600", "--deselect", "tests/test_sample_simple_cur.py", "tests"], env=env, cwd=d, timeout=1500)
        tail = out.strip().splitlines()[-1] if out.strip() else ""
        res["suite"] = tail[-120:]
        res["verdict"] = "SURVIVOR" if rc == 0 else "killed_by_tests"
        return res
    finally:
        shutil.rmtree(d, ignore_errors=True)


def main():
    ap = argparse.ArgumentParser()
    ap.add_argument("file"); ap.add_argument("checks")
    ap.add_argument("--n", type=int, default=120); ap.add_argument("--seed", type=int, default=1)
    ap.add_argument("--jobs", type=int, default=6); ap.add_argument("--funcs", default="")
    ap.add_argument("--runs", type=int, default=3000); ap.add_argument("--out", default=None)
    ap.add_argument("--workers", type=int, default=2)
    a = ap.parse_args()
    src = open(os.path.join("/repo/src/skmatter", a.file)).read()
    tree = ast.parse(src)
    funcs = set(x for x in a.funcs.split(",") if x)
    ss = sites(tree, funcs)
    rng = random.Random(a.seed)
    rng.shuffle(ss)
    ss = ss[: a.n]
    lines = src.splitlines()
    jobs = []
    for k, (idx, kind, ln, desc) in enumerate(ss):
        try:
            ms = mutate(src, idx, kind)
        except Exception as e:  # noqa: BLE001
            continue
        meta = {"file": a.file, "line": ln, "op": kind, "desc": desc, "source_line": lines[ln - 1].strip()[:140] if 0 < ln <= len(lines) else ""}
        jobs.append((k, a.file, ms, meta, a.checks.split(","), a.runs, a.workers))
    print(f"{len(jobs)} mutants of {a.file} ({len(sites(tree, funcs))} sites)", flush=True)
    t0 = time.time()
    out = []
    with ThreadPoolExecutor(max_workers=a.jobs) as ex:
        for r in ex.map(evaluate, jobs):
            out.append(r)
            print(f"[{len(out)}/{len(jobs)} {time.time() - t0:.0f}s] {r['verdict']:16s} {r.get('by', ''):4s} L{r['line']} {r['op']} {r['desc']} | {r['source_line'][:90]}", flush=True)
            if a.out:
                json.dump(out, open(a.out, "w"), indent=1)
    from collections import Counter
    print(Counter(r["verdict"] for r in out))


if __name__ == "__main__":
    main()
