"""Prints the markdown table of seeded changes for DESIGN.md section 11 from
seeded/*/meta.json (+ optional cross-check results in seeded/*/cross.json)."""
import glob, json, os
V = os.path.dirname(os.path.dirname(os.path.abspath(__file__)))
rows = []
for d in sorted(glob.glob(os.path.join(V, "seeded", "*"))):
    mp = os.path.join(d, "meta.json")
    if not os.path.exists(mp):
        continue
    m = json.load(open(mp))
    sid = os.path.basename(d)
    c = m.get("confirmed_by_me", {})
    own = c.get("checks_against_change", {})
    caught = m.get("caught_by", [])
    first = m.get("caught_first_by") or ("(current)" if caught else "")
    clauses = ", ".join(sorted({k for r in own.values() for k in r.get("clauses", {})}))
    cross = {}
    cp = os.path.join(d, "cross.json")
    if os.path.exists(cp):
        cross = {k: v["exit"] == 1 for k, v in json.load(open(cp)).items()}
    others = [k for k, v in cross.items() if v and k != m["property"]]
    hist = m.get("detection_history", "")
    rows.append((sid, m["property"], (m.get("title") or "")[:110], (m.get("needs_to_manifest") or "")[:160],
                 "yes" if m["property"] in caught else ("no (caught by " + ", ".join(caught) + ")" if caught else "NO"), clauses, ", ".join(others), hist))
print("| id | prop | change | needs to manifest | caught by own check | clause(s) | also caught by | note |")
print("|---|---|---|---|---|---|---|---|")
for r in rows:
    print("| " + " | ".join(x.replace("|", "/").replace("\n", " ") for x in r) + " |")
