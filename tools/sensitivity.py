"""Sensitivity aid: apply named one-line mutants (or a patch file) to a scratch copy of
/repo/src, run quick checks against the copy (HOSTSIM_REPO_SRC), record which fail.
Never touches /repo. Usage:
  python tools/sensitivity.py                 # all built-in mutants
  python tools/sensitivity.py --patch f.diff C01 C08   # a patch file against given checks
Results: tools/sensitivity_results.json (built-in) or stdout (patch)."""
import json, os, shutil, subprocess, sys, tempfile

V = os.path.dirname(os.path.dirname(os.path.abspath(__file__)))
MUTANTS = [
    # (name, file, old, new, checks expected to notice)
    ("voronoi_prune_half", "sample_selection/_voronoi_fps.py", ") * 0.25", ") * 0.5", ["C06"]),
    ("voronoi_sparse_keeps_selected", "sample_selection/_voronoi_fps.py", "                self.new_dist_[last_selected] = 0\n", "", ["C06"]),
    ("voronoi_pad_dsl_short", "sample_selection/_voronoi_fps.py", "n_pad = n_to_select - self.n_selected_\n", "n_pad = n_to_select - self.n_selected_ - 1\n", ["C06", "C01", "C08"]),
    ("voronoi_vlocation_stale", "sample_selection/_voronoi_fps.py", "            self.vlocation_of_idx[updated_points] = self.n_selected_\n", "            self.vlocation_of_idx[updated_points[1:]] = self.n_selected_\n", ["C06"]),
    ("continue_idx_sorted", "_selection.py", "        self.selected_idx_[: self.n_selected_] = old_idx\n", "        self.selected_idx_[: self.n_selected_] = np.sort(old_idx)\n", ["C01", "C08"]),
    ("support_drops_last", "_selection.py", "        self.support_[self.selected_idx_] = True\n", "        self.support_[self.selected_idx_[:-1]] = True\n        self.support_[self.selected_idx_[-1:]] = len(self.selected_idx_) < 9\n", ["C01"]),
    ("mask_skips_first", "_selection.py", "            scores[self.selected_idx_[: self.n_selected_]] = -np.inf\n", "            scores[self.selected_idx_[1 : self.n_selected_]] = -np.inf\n", ["C01"]),
    ("cur_continue_no_zero", "_selection.py", "        self.pi_ = self._compute_pi(self.X_current_)\n        self.pi_[self.selected_idx_[: self.n_selected_]] = 0.0\n", "        self.pi_ = self._compute_pi(self.X_current_)\n", ["C08"]),
    ("fps_hausdorff_reset_on_continue", "_selection.py", "        old_idx = self.selected_idx_.copy()\n", "        old_idx = self.selected_idx_.copy()\n        if hasattr(self, 'hausdorff_at_select_') and n_to_select > 6:\n            self.hausdorff_at_select_ = np.full_like(self.hausdorff_at_select_, np.inf)\n", ["C08"]),
    ("ridge_relative_min", "linear_model/_ridge.py", "scaled_alphas *= max(np.max(s_fold1), np.max(s_fold2))", "scaled_alphas *= min(np.max(s_fold1), np.max(s_fold2))", ["C10"]),
    ("ridge_cv_sorted", "linear_model/_ridge.py", "        self.best_score_ = np.max(self.cv_values_)\n", "        self.cv_values_ = sorted(self.cv_values_) if len(self.cv_values_) > 7 else self.cv_values_\n        self.best_score_ = np.max(self.cv_values_)\n", ["C10"]),
    ("ridge_fold_reuse", "linear_model/_ridge.py", "        X_fold1_V_fold2 = X_fold1 @ Vt_fold2.T[:, :n_fold2]\n", "        X_fold1_V_fold2 = X_fold1 @ Vt_fold2.T[:, :n_fold1] if n_fold1 == n_fold2 else X_fold1 @ Vt_fold2.T[:, :n_fold2]\n", []),
    ("ridge_final_rank_len", "linear_model/_ridge.py", "        n = sum(s > rcond)\n", "        n = len(s > rcond)\n", ["C10"]),
    ("quickshift_inplace", "clustering/_quick_shift.py", "self.dist_cutoff_sq = self.dist_cutoff_sq * self.scale**2", "self.dist_cutoff_sq *= self.scale**2", ["C09"]),
    ("scaler_fit_inplace_center", "preprocessing/_data.py", "            var = np.average((X - X_mean) ** 2, weights=sample_weight, axis=0)\n", "            X -= X_mean\n            var = np.average(X**2, weights=sample_weight, axis=0)\n            X += X_mean\n", ["C09"]),
    ("knorm_stale_weight", "preprocessing/_data.py", "        else:\n            self.sample_weight_ = sample_weight\n", "        elif not hasattr(self, 'sample_weight_'):\n            self.sample_weight_ = sample_weight\n", ["C09"]),
    ("pcovr_keeps_regressor", "decomposition/_pcovr.py", "            self.regressor_ = check_lr_fit(regressor, X, y=Y)\n", "            if not hasattr(self, 'regressor_') or self.regressor_.coef_.shape[-1] != X.shape[1]:\n                self.regressor_ = check_lr_fit(regressor, X, y=Y)\n", ["C09"]),
    ("voronoi_global_seed", "sample_selection/_voronoi_fps.py", "                    random_state = check_random_state(self.random_state)\n                    sel = random_state.randint(", "                    random_state = check_random_state(None)\n                    sel = random_state.randint(", []),
]


def run_checks(src, pids, runs):
    out = {}
    for pid in pids:
        env = dict(os.environ)
        env["HOSTSIM_REPO_SRC"] = src
        env.pop("HOSTSIM_REEXEC", None)
        env.pop("PYTHONPATH", None)
        cmd = [sys.executable, "-m", f"checks.{pid.lower()}", "--tier", "quick", "--no-evidence"]
        if runs:
            cmd += ["--runs", str(runs)]
        p = subprocess.run(cmd, cwd=V, env=env, capture_output=True, text=True)
        viol = [l for l in p.stdout.splitlines() if l.startswith("VIOLATION")]
        clauses = sorted({l.split("clause=")[1].split(" ")[0] for l in p.stdout.splitlines() if "clause=" in l})
        out[pid] = {"exit": p.returncode, "violations": len(viol), "clauses": clauses, "first_replay": viol[0].split("replay=")[1] if viol else None,
                    "harness": [l for l in p.stdout.splitlines() if l.startswith("HARNESS")][:2]}
        shutil.rmtree(os.path.join(V, "replays", pid), ignore_errors=True)
    return out


def scratch():
    d = tempfile.mkdtemp(prefix="hostsim_mut_")
    shutil.copytree("/repo/src", os.path.join(d, "src"))
    return d


if __name__ == "__main__":
    if "--patch" in sys.argv:
        i = sys.argv.index("--patch")
        patch = os.path.abspath(sys.argv[i + 1])
        pids = sys.argv[i + 2 :] or ["C01", "C06", "C08", "C09", "C10"]
        d = scratch()
        try:
            r = subprocess.run(["git", "apply", "--unsafe-paths", "--directory", d, patch], cwd=d, capture_output=True, text=True)
            if r.returncode:
                r = subprocess.run(["patch", "-p1", "-d", d, "-i", patch], capture_output=True, text=True)
            if r.returncode:
                print("cannot apply patch:", r.stdout, r.stderr)
                sys.exit(2)
            print(json.dumps(run_checks(os.path.join(d, "src"), pids, None), indent=1))
        finally:
            shutil.rmtree(d, ignore_errors=True)
        sys.exit(0)
    results = {}
    all_pids = ["C01", "C06", "C08", "C09", "C10"]
    for name, f, old, new, expect in MUTANTS:
        d = scratch()
        try:
            path = os.path.join(d, "src", "skmatter", f)
            s = open(path).read()
            if s.count(old) < 1:
                results[name] = {"error": "pattern not found (source changed)"}
                continue
            open(path, "w").write(s.replace(old, new, 1))
            results[name] = {"expected": expect, "file": f, "result": run_checks(os.path.join(d, "src"), all_pids, None)}
            caught = [p for p, r in results[name]["result"].items() if r["exit"] == 1]
            results[name]["caught_by"] = caught
            print(name, "caught by", caught, "(expected", expect, ")", flush=True)
        finally:
            shutil.rmtree(d, ignore_errors=True)
    json.dump(results, open(os.path.join(V, "tools", "sensitivity_results.json"), "w"), indent=1)
