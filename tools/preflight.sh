#!/bin/bash
# Pre-commit gate: every quick check on the unchanged tree for several VERIF_SEED values
# (incl. 1, the value used by `vp check`), no evidence written. Exit 0 only if all are quiet.
cd "$(dirname "$0")/.."
rc=0
for sd in ${SEEDS:-1 2 3 20261004}; do
  for c in ${CHECKS:-c01 c06 c08 c09 c10}; do
    out=$(VERIF_SEED=$sd timeout 3000 /venv/bin/python -m checks.$c --tier quick --no-evidence --budget 3000 2>&1)
    code=$?
    line=$(echo "$out" | grep " quick: runs=" | tail -1 | cut -c1-170)
    echo "seed=$sd $line exit=$code"
    if [ $code -ne 0 ]; then rc=1; echo "$out" | grep -B1 "^VIOLATION\|^HARNESS" | head -6 | cut -c1-400; fi
  done
done
exit $rc
