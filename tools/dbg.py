"""Debug helper: run traces in-process. python tools/dbg.py C06 quiet|faults first count"""
import os, sys, random, traceback, json
sys.path.insert(0, os.path.dirname(os.path.dirname(os.path.abspath(__file__))))
sys.argv_orig = list(sys.argv)
from sim.runner import ensure_process_env, run_isolated, _exec_trace
ensure_process_env()
from sim.util import H
from collections import Counter

def get_scenario(pid):
    if pid in ("C01", "C06", "C08"):
        from sim.selgen import SelectorScenario
        return SelectorScenario(pid)
    if pid == "C10":
        from sim.ridge import RidgeScenario
        return RidgeScenario()
    if pid == "C09":
        from sim.purgen import PurityScenario
        return PurityScenario()

if __name__ == "__main__":
    pid, mode, first, count = sys.argv[1], sys.argv[2], int(sys.argv[3]), int(sys.argv[4])
    tier = sys.argv[5] if len(sys.argv) > 5 else "quick"
    sc = get_scenario(pid)
    seed = int(os.environ.get("VERIF_SEED", "20261004"))
    faults = mode == "faults"
    viol = Counter(); fired = Counter(); probes = Counter(); counters = Counter()
    shown = 0
    for idx in range(first, first + count):
        rseed = H(seed, pid, tier, "faults" if faults else "quiet", idx)
        tr = sc.generate(random.Random(rseed), idx, tier, faults)
        if os.environ.get("FORK"):
            st, res = run_isolated(_exec_trace, (sc, tr), 120)
            if st != "ok":
                print("RUN", idx, st, res); continue
        else:
            try:
                res = sc.execute(tr)
            except Exception:
                print("HARNESS EXC at", idx); traceback.print_exc(); continue
        fired.update(res["fired"]); probes.update(res["probes"]); counters.update(res["counters"])
        for v in res["violations"]:
            viol[(v["clause"], v["cls"])] += 1
            if shown < int(os.environ.get("SHOW", "8")):
                shown += 1
                print(f"[{idx}] {v['clause']} {v['cls']}: {v['detail'][:400]}")
                print("     facts:", v["facts"])
    print("violations:", dict(viol))
    print("fired:", dict(fired))
    print("probes:", dict(probes))
    print("counters:", dict(counters))
