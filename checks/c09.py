"""Check for property C09 (see DESIGN.md). Usage: python -m checks.c09 --tier quick|thorough | --replay <file>"""

import os
import sys

sys.path.insert(0, os.path.dirname(os.path.dirname(os.path.abspath(__file__))))

if __name__ == "__main__":
    sys.argv_orig = list(sys.argv)
    from sim.runner import ensure_process_env

    ensure_process_env()
    from sim.runner import main
    from sim.purgen import PurityScenario

    main(PurityScenario())
