"""Reference models in plain numpy. Nothing in this file imports skmatter."""

import numpy as np

from .util import EPS

# --------------------------------------------------------------------------- FPS


def sqdist_to(P, j):
    """Exact-ish squared distances of all rows of P to row j (difference based)."""
    D = P - P[j]
    return np.einsum("ij,ij->i", D, D)


def fps_tau(P):
    """Rounding allowance for the implementation's formula |x|^2+|s|^2-2 x.s.

    Every term is bounded by 2*max|x|^2; the dot product accumulates dim terms.
    """
    nrm = np.einsum("ij,ij->i", P, P)
    return 64.0 * EPS * 2.0 * float(nrm.max() if nrm.size else 0.0) * max(2, P.shape[1])


class FPSReference:
    """Brute-force farthest point sampling on the rows of P, followed step by step
    along the implementation's own prefix."""

    def __init__(self, P):
        self.P = np.asarray(P, dtype=np.float64)
        self.n = self.P.shape[0]
        self.tau = fps_tau(self.P)
        self.mind = np.full(self.n, np.inf)
        self.selected = []

    def candidates_best(self):
        """(best value, gap to the runner-up *value among other indices*)."""
        if not self.selected:
            return np.inf, 0.0
        return float(self.mind.max())

    def check_choice(self, j):
        """Is j a farthest candidate (within tau) given the current prefix?"""
        if not self.selected:
            return True, 0.0
        best = float(self.mind.max())
        return bool(self.mind[j] >= best - self.tau), best - float(self.mind[j])

    def is_tie(self):
        """True if the two largest current distances are within tau (or exhausted)."""
        if not self.selected or self.n < 2:
            return True
        s = np.sort(self.mind)
        return bool(s[-1] - s[-2] <= self.tau or s[-1] <= self.tau)

    def exhausted(self):
        return bool(self.selected) and float(self.mind.max()) <= self.tau

    def add(self, j):
        self.mind = np.minimum(self.mind, sqdist_to(self.P, j))
        self.selected.append(int(j))

    def select_distance_of(self, j):
        return float(self.mind[j])


# ------------------------------------------------------------------ n_to_select


def resolve_n_to_select(n_to_select, n_from):
    """The size implied by n_to_select as documented (None: half; float: fraction)."""
    import numbers

    if n_to_select is None:
        return n_from // 2
    if isinstance(n_to_select, numbers.Integral):
        return int(n_to_select)
    return int(n_from * n_to_select)


# --------------------------------------------------------------------------- PCovR matrices


def ref_pcovr_kernel(mixing, X, Y):
    K = np.zeros((X.shape[0], X.shape[0]))
    if mixing < 1:
        K = K + (1 - mixing) * (Y @ Y.T)
    if mixing > 0:
        K = K + mixing * (X @ X.T)
    return K


def ref_pcovr_covariance(mixing, X, Y, rcond=1e-12):
    C = np.zeros((X.shape[1], X.shape[1]))
    if mixing < 1:
        w, U = np.linalg.eigh(X.T @ X)
        keep = w > rcond
        Ci = (U[:, keep] / np.sqrt(w[keep])) @ U[:, keep].T
        CY = Ci @ (X.T @ Y)
        CY = CY.reshape(C.shape[0], -1)
        C = C + (1 - mixing) * (CY @ CY.T)
    if mixing > 0:
        C = C + mixing * (X.T @ X)
    return C


def spectrum_gap(M, k, symmetric):
    """Relative gap between the k-th and (k+1)-th singular/eigen value of M.

    Returns (relgap, top). relgap is measured against the largest value.
    """
    if symmetric:
        w = np.sort(np.abs(np.linalg.eigvalsh((M + M.T) / 2)))[::-1]
    else:
        w = np.linalg.svd(M, compute_uv=False)
    if w.size == 0 or w[0] <= 0:
        return 0.0, 0.0
    if k >= w.size:
        return float(w[k - 1] / w[0]) if k - 1 < w.size else 0.0, float(w[0])
    return float((w[k - 1] - w[k]) / w[0]), float(w[0])


# --------------------------------------------------------------------------- two-fold ridge


def _filter_solve(Xtr, ytr, alpha, method, rank_tol):
    """Regularised least squares on (Xtr, ytr) in the numerical-rank subspace."""
    U, s, Vt = np.linalg.svd(Xtr, full_matrices=False)
    # numerical rank in its standard sense (numpy.linalg.matrix_rank, scipy.linalg.pinv):
    # singular values above max(n, m) * eps * (largest singular value of this matrix)
    r = int(np.sum(s > rank_tol * (s[0] if s.size else 0.0)))
    U, s, Vt = U[:, :r], s[:r], Vt[:r]
    if method == "tikhonov":
        f = s / (s**2 + alpha)
    else:
        f = np.where(s > alpha, 1.0 / s, 0.0)
    return (Vt.T * f) @ (U.T @ ytr)  # (m, p)


def ref_scores(name, y_true, y_pred):
    y_true = np.asarray(y_true, dtype=float)
    y_pred = np.asarray(y_pred, dtype=float)
    if y_true.ndim == 1:
        y_true = y_true[:, None]
        y_pred = y_pred.reshape(len(y_pred), -1)
    err = ((y_true - y_pred) ** 2).mean(axis=0)  # per target
    if name in (None, "neg_mean_squared_error"):
        return -float(err.mean())
    if name == "neg_root_mean_squared_error":
        return -float(np.sqrt(err).mean())
    if name == "r2":
        # coefficient of determination per target, averaged; the degenerate cases follow
        # the documented convention of the metric (perfect fit -> 1, constant target with
        # an imperfect fit -> 0) so that the value is always finite
        den = ((y_true - y_true.mean(axis=0)) ** 2).sum(axis=0)
        num = ((y_true - y_pred) ** 2).sum(axis=0)
        r2 = np.ones_like(num)
        ok = (den != 0) & (num != 0)
        r2[ok] = 1.0 - num[ok] / den[ok]
        r2[(num != 0) & (den == 0)] = 0.0
        return float(r2.mean())
    raise ValueError(name)


def ref_ridge2fold(X, y, alphas, alpha_type, method, scoring, fold1, fold2, eps=None):
    """Explicit two-fold CV regularised least squares. Returns dict. eps: machine
    epsilon of the caller's X (the numerical rank is a statement about X's precision).
    rank_tol is the RELATIVE cut max(n, m) * eps; each decomposed matrix (fold 1, fold 2,
    full data) is cut at rank_tol times its own largest singular value."""
    X = np.asarray(X, float)
    y = np.asarray(y, float)
    fold1, fold2 = (np.flatnonzero(f) if np.asarray(f).dtype == bool else np.asarray(f) for f in (fold1, fold2))
    rank_tol = max(X.shape) * (EPS if eps is None else eps)
    X1, X2, y1, y2 = X[fold1], X[fold2], y[fold1], y[fold2]
    alphas = np.asarray(alphas, dtype=float)
    scaled = alphas.copy()
    if alpha_type == "relative":
        s1 = np.linalg.svd(X1, compute_uv=False)
        s2 = np.linalg.svd(X2, compute_uv=False)
        scaled = scaled * max(s1.max(), s2.max())
    cv = []
    for a in scaled:
        w1 = _filter_solve(X1, y1, a, method, rank_tol)
        w2 = _filter_solve(X2, y2, a, method, rank_tol)
        sc12 = ref_scores(scoring, y2, X2 @ w1)
        sc21 = ref_scores(scoring, y1, X1 @ w2)
        cv.append((sc12 + sc21) / 2)
    cv = np.array(cv)

    def final_coef(i):
        w = _filter_solve(X, y, scaled[i], method, rank_tol)
        return w.T  # (p, m) or (m,) for 1-D y

    return {"cv": cv, "scaled": scaled, "final_coef": final_coef, "rank_tol": rank_tol}
