"""C10: Ridge2FoldCV against explicit two-fold regularised least squares, with the
joblib task schedule and the ambient RNG owned by the simulator."""

import copy

import numpy as np

from . import data as D
from .env import Env, InjectedInterrupt, InjectedMemoryError, is_injected, new_stats
from .refmodels import ref_ridge2fold, ref_scores
from .util import EPS, Digest, arr_to_hex

SCORINGS = [None, "neg_mean_squared_error", "neg_root_mean_squared_error", "r2"]


def _seed(rng):
    return rng.randrange(1, 2**31 - 1)


# ----------------------------------------------------------------------------- generation


def gen_c10(rng, idx, tier, faults):
    kind = rng.choice(["gauss", "gauss", "uniform", "lowrank", "dupcols", "scaled", "offset", "lattice"])
    shape_kind = rng.choice(["tall", "tall", "wide", "square"])
    if shape_kind == "tall":
        n, m = rng.randint(8, 40), rng.randint(1, 8)
    elif shape_kind == "wide":
        n, m = rng.randint(6, 14), rng.randint(8, 14)
    else:
        n = m = rng.randint(4, 12)
    xs = {"kind": kind, "shape": [n, m], "seed": _seed(rng), "storage": "C"}
    if rng.random() < 0.07 and kind != "offset":
        # (not for data with a large common offset: single precision keeps only ~3 of its
        # informative digits, every score is then dominated by cancellation)
        # the caller's X in single precision (y stays double): the numerical rank is then a
        # statement about float32; exact rescaling keeps the spectrum away from the absolute cut
        xs["cast"] = "float32"
        xs["scale_pow2"] = rng.choice([-7, -6, -5, -4, 0])
    if "cast" not in xs and rng.random() < 0.12:
        # badly scaled data: the whole matrix rescaled exactly by a power of two (the numerical
        # rank is relative to the largest singular value, so it must not change)
        xs["scale_pow2"] = rng.choice([-30, -20, -10, 7, 14, 20, 30])
    if kind == "lattice" and "cast" not in xs and rng.random() < 0.35:
        xs["cast"] = "int64"  # integer-valued features in the caller's integer dtype
    p = rng.randint(1, 3)
    noise = rng.choice([0.0, 0.0, 1e-3, 0.1, 1.0])
    heap = {
        "X": xs,
        "W": {"kind": "gauss", "shape": [m, p], "seed": _seed(rng)},
        "E": {"kind": "gauss", "shape": [n, p], "seed": _seed(rng)},
    }
    ydef = {"from": ["X", "W", "E"], "noise": noise, "squeeze": bool(p == 1 and rng.random() < 0.5)}
    ydef["storage"] = "C"
    alpha_type = rng.choice(["absolute", "relative"])
    method = rng.choice(["tikhonov", "cutoff"])
    na = rng.randint(1, 10)
    if alpha_type == "absolute":
        alphas = [10 ** rng.uniform(-12, 3) if rng.random() > 0.04 else 0.0 for _ in range(na)]
    else:
        alphas = [rng.choice([0.0, 10 ** rng.uniform(-12, -0.01), rng.uniform(0, 0.99)]) for _ in range(na)]
    if rng.random() < 0.5:
        alphas.sort()
    int_grid = rng.random() < 0.05
    if int_grid:
        # an integer-typed grid (alphas=[1, 10, 100], or [0] for a relative grid)
        alphas = [0] * rng.randint(1, 2) if alpha_type == "relative" else [rng.choice([0, 1, 10, 100, 1000]) for _ in range(na)]
    params = {
        "alphas": alphas,
        "alpha_type": alpha_type,
        "regularization_method": method,
        "scoring": rng.choice(SCORINGS),
    }
    if alpha_type == "absolute" and rng.random() < (0.2 if method == "cutoff" else 0.05):
        # grid values that are bit-identical to singular values of a fold / of the full data
        # (a grid built from np.linalg.svd of the data): there `s > alpha` is exactly False
        params["alphas_from_sv"] = [[rng.choice(["fold1", "fold2", "full"]), rng.random()] for _ in range(rng.randint(1, 3))]
    if int_grid:
        params["alphas_form"] = rng.choice(["int_list", "int_ndarray"])
        params.pop("alphas_from_sv", None)
    elif rng.random() < 0.15:
        params["alphas_form"] = rng.choice(["ndarray", "ndarray_readonly", "tuple"])  # default: list
    if params["scoring"] is not None and rng.random() < 0.15:
        params["scoring_form"] = "scorer_object"  # the scorer object instead of its name
    if rng.random() < 0.2:
        xs["storage"] = rng.choice(["F", "view", "readonly"])  # the caller's memory layout
    y_storage = rng.choice(["C", "C", "C", "view", "F"])
    r = rng.random()
    if r < 0.45:
        cv = None
        params["shuffle"] = rng.random() < 0.6
        params["random_state"] = rng.choice([None, None, rng.randrange(1000)]) if params["shuffle"] else None
        if params["random_state"] is not None and rng.random() < 0.3:
            params["random_state"] = {"$npint": params["random_state"], "dtype": rng.choice(["int64", "int32"])}
    elif r < 0.7:
        perm = list(range(n))
        rng.shuffle(perm)
        k = rng.randint(2, n - 2)
        a, b = sorted(perm[:k]), sorted(perm[k:])
        if rng.random() < 0.2 and n > 5:
            a = sorted(set(a + b[:1]))  # overlapping folds are legal for explicit iterables
        elif rng.random() < 0.2 and len(b) > 2:
            b = b[:-1]  # ... and so is partial coverage of the samples
        cv = {"type": rng.choice(["list", "generator"]), "pairs": [[a, b]]}
        if rng.random() < 0.2:
            cv["as_mask"] = True  # folds given as boolean sample masks
        if rng.random() < 0.3:
            cv["pairs"].append([b, a])
    elif r < 0.78:
        # another splitter object: unequal, non-covering train/test sets
        cv = {"type": "shufflesplit", "n_splits": rng.randint(1, 3), "test_size": rng.choice([0.3, 0.4, 0.5]), "random_state": rng.randrange(1000)}
    else:
        cv = {
            "type": "kfold",
            "n_splits": rng.choice([2, 2, 3, 5]),
            "shuffle": rng.random() < 0.5,
        }
        if cv["n_splits"] > n // 2:
            cv["n_splits"] = 2
        cv["random_state"] = rng.randrange(1000) if cv["shuffle"] else None
    if cv is None and not params["shuffle"] and rng.random() < 0.15:
        cv = {"type": "int", "n_splits": 2 if n < 6 else rng.choice([2, 3])}  # cv=<int>: unshuffled KFold
    params["cv"] = cv
    ydef["storage"] = y_storage
    nlanes = 2 if faults else 1
    ops = []
    if cv is None and rng.random() < 0.2:
        # another estimator with another default fold assignment (shuffling flipped / another
        # seed) was fitted on data of the same size earlier in this process: state shared
        # between estimators (a module-level fold cache ...) would leak into the lanes
        pr9 = dict(params)
        pr9["n_jobs"] = None
        pr9["shuffle"] = not params["shuffle"] if rng.random() < 0.7 else params["shuffle"]
        pr9["random_state"] = (params["random_state"] if rng.random() < 0.5 else rng.choice([None, rng.randrange(1000)])) if pr9["shuffle"] else None
        if isinstance(pr9["random_state"], dict) and not pr9["shuffle"]:
            pr9["random_state"] = None
        ops.append({"op": "NEW", "obj": "e9", "params": pr9})
        ops.append({"op": "FIT", "obj": "e9", "env": {"joblib": {"mode": "inline", "workers": 2}, "rng": {"seed": _seed(rng)}}})
    for li in range(nlanes):
        pr = dict(params)
        pr["n_jobs"] = rng.choice([None, 1, 2, 3, -1])
        if faults and (li > 0 or rng.random() < 0.7):
            jb = {
                "mode": rng.choice(["reorder", "reorder", "batch", "isolate", "twice", "threads", "threads"]),
                "switch": rng.choice([0.05, 0.2, 0.5, 1.0]),
                "seed": _seed(rng),
                "workers": rng.randint(2, 4),
                "reorder": rng.random() < 0.7,
            }
            if jb["mode"] == "batch":
                jb["batch"] = rng.randint(2, 4)
        else:
            jb = {"mode": "inline", "workers": rng.randint(2, 3)}
        env = {"joblib": jb, "rng": {"seed": _seed(rng) if (faults or li == 0) else 12345}}
        if li == 0:
            env0 = env
        ops.append({"op": "NEW", "obj": f"e{li}", "params": pr})
        if faults and li == 0 and rng.random() < 0.12 and (cv is None or cv["type"] != "generator"):
            # the fit crashes at an arbitrary line; the caller fits the same object again
            cenv = dict(env)
            if rng.random() < 0.25:
                cenv["linalg"] = {"fail_at": rng.randint(1, 3)}  # one of the three SVDs does not converge
            else:
                cenv["interrupt"] = {"exc": rng.choice(["KeyboardInterrupt", "MemoryError"]), "at": rng.randint(1, 120)}
            ops.append({"op": "FIT", "obj": f"e{li}", "env": cenv})
        ops.append({"op": "FIT", "obj": f"e{li}", "env": env})
        if rng.random() < 0.3:
            ops[-1]["then_set_alphas"] = True  # re-parameterise after the fit and read the fitted attributes again
    if rng.random() < 0.25:
        # the caller reuses its X / y buffers: new values in the same array objects, then a
        # refit of the same estimator (judged against the reference on the new values)
        ops.append({"op": "MUTATE", "seed": _seed(rng)})
        ops.append({"op": "FIT", "obj": "e0", "env": env0, "refit": True})
    elif rng.random() < 0.3 and (cv is None or cv["type"] != "generator"):
        # the caller re-parameterises the fitted estimator with set_params and fits it again
        # on the same data (coarse-to-fine grids, another criterion, another filter ...)
        patch = {}
        for _ in range(rng.choice([1, 1, 2])):
            what = rng.choice(["scoring", "scoring", "alphas", "alpha_type", "regularization_method", "folds", "n_jobs"])
            if what == "scoring":
                patch["scoring"] = rng.choice([s_ for s_ in SCORINGS if s_ != params["scoring"]])
            elif what == "alphas":
                hi = 0.99 if patch.get("alpha_type", alpha_type) == "relative" else 1e3
                patch["alphas"] = [min(hi, 10 ** rng.uniform(-10, 0)) for _ in range(rng.randint(1, 8))]
            elif what == "alpha_type":
                patch["alpha_type"] = "relative" if alpha_type == "absolute" else "absolute"
                if patch["alpha_type"] == "relative":
                    patch["alphas"] = [rng.choice([10 ** rng.uniform(-10, -0.01), rng.uniform(0, 0.99)]) for _ in range(rng.randint(1, 8))]
            elif what == "regularization_method":
                patch["regularization_method"] = "cutoff" if method == "tikhonov" else "tikhonov"
            elif what == "folds" and cv is None:
                patch["shuffle"] = not params["shuffle"]
                patch["random_state"] = rng.randrange(1000) if patch["shuffle"] else None
            elif what == "n_jobs":
                patch["n_jobs"] = rng.choice([None, 1, 2, 3])
        if patch:
            ops.append({"op": "SET", "obj": "e0", "params": patch})
            ops.append({"op": "FIT", "obj": "e0", "env": env0, "refit": True, "reparam": True})
    if rng.random() < 0.12 and not any(o["op"] in ("MUTATE", "SET") for o in ops) and xs.get("storage", "C") != "readonly" and (cv is None or cv["type"] != "generator"):
        # a shallow copy of the fitted estimator is refitted on a new batch in the same buffer;
        # the original is read again at the end of the trace
        ops.append({"op": "FORK", "obj": "e0c", "from": "e0"})
        ops.append({"op": "MUTATE", "seed": _seed(rng)})
        ops.append({"op": "FIT", "obj": "e0c", "env": env0, "refit": True})
    if rng.random() < 0.3:
        ops.append({"op": "PREDICT_AFTER_REFILL", "seed": _seed(rng)})
    return {"heap": heap, "y": ydef, "ops": ops, "predict_seed": _seed(rng)}


def build_y(trace, heap):
    yd = trace["y"]
    if "explicit" in yd:
        return D.make_array(yd["explicit"])
    X, W, E = (D.make_array(heap[k]) for k in yd["from"])
    y = X @ W + yd["noise"] * E
    if yd.get("squeeze") and y.shape[1] == 1:
        y = y[:, 0]
    return y


# ----------------------------------------------------------------------------- execution


class RidgeWorld:
    def __init__(self, trace):
        self.trace = trace
        self.stats = new_stats()
        self.env = Env(self.stats)
        self.violations = []
        self.log = Digest()
        self.counters = {}
        self.events = 0
        self.results = {}

    def count(self, k, n=1):
        self.counters[k] = self.counters.get(k, 0) + n

    def violate(self, clause, detail, **facts):
        facts.setdefault("cls", "Ridge2FoldCV")
        self.violations.append({"clause": clause, "cls": "Ridge2FoldCV", "detail": detail, "facts": facts})

    def alphas_from_sv(self, params, X):
        """Replace some grid values by singular values of the folds / the full data, taken
        with the same LAPACK call on the same array the estimator will see."""
        from sklearn.model_selection import KFold

        p = dict(params)
        picks = p.pop("alphas_from_sv")
        cv = p.get("cv")
        n = X.shape[0]
        folds = None
        try:
            if cv is None:
                if not p.get("shuffle", True) or isinstance(p.get("random_state"), int):
                    folds = next(KFold(2, shuffle=p.get("shuffle", True), random_state=p.get("random_state") if p.get("shuffle", True) else None).split(X))
            elif cv["type"] == "int":
                folds = next(KFold(int(cv["n_splits"])).split(X))
            elif cv["type"] == "shufflesplit":
                folds = None
            elif cv["type"] == "kfold":
                if not cv["shuffle"] or isinstance(cv.get("random_state"), int):
                    folds = next(KFold(cv["n_splits"], shuffle=cv["shuffle"], random_state=cv.get("random_state")).split(X))
            else:
                folds = (np.array(cv["pairs"][0][0], dtype=int), np.array(cv["pairs"][0][1], dtype=int))
        except Exception:  # noqa: BLE001
            folds = None
        Xf = X if X.dtype == np.float64 else None
        alphas = list(p["alphas"])
        if Xf is None:
            return p
        for which, frac in picks:
            try:
                if which == "full":
                    sv = np.linalg.svd(Xf, full_matrices=False)[1]  # the same call the estimator makes
                elif folds is None:
                    continue
                else:
                    sv = np.linalg.svd(Xf[folds[0] if which == "fold1" else folds[1]], full_matrices=False)[1]
                sv = sv[sv > 0]
                if sv.size:
                    alphas[int(frac * len(alphas)) % len(alphas)] = float(sv[int(frac * 7919) % sv.size])
                    self.count("alpha_taken_from_singular_values")
            except Exception:  # noqa: BLE001
                pass
        p["alphas"] = alphas
        return p

    def make_cv(self, cv, n):
        from sklearn.model_selection import KFold

        if cv is None:
            return None
        if cv["type"] == "int":
            return int(cv["n_splits"])
        if cv["type"] == "shufflesplit":
            from sklearn.model_selection import ShuffleSplit

            return ShuffleSplit(n_splits=cv["n_splits"], test_size=cv["test_size"], random_state=cv["random_state"])
        if cv["type"] == "kfold":
            return KFold(n_splits=cv["n_splits"], shuffle=cv["shuffle"], random_state=cv.get("random_state"))
        pairs = [(np.array(a, dtype=int), np.array(b, dtype=int)) for a, b in cv["pairs"]]
        if cv.get("as_mask"):
            def mask(ix):
                mk = np.zeros(n, dtype=bool)
                mk[ix] = True
                return mk

            pairs = [(mask(a), mask(b)) for a, b in pairs]
        if cv["type"] == "generator":
            return (p for p in pairs)
        return pairs

    def run(self):
        tr = self.trace
        X = _layout(D.make_array(tr["heap"]["X"]), tr["heap"]["X"].get("storage", "C"))
        y = _layout(build_y(tr, tr["heap"]), tr["y"].get("storage", "C"))
        self.x_readonly = tr["heap"]["X"].get("storage") == "readonly"
        self.env.install()
        import skmatter.linear_model._ridge as R

        # fold observation through the module-level seams KFold / check_cv
        recorded = {"folds": None}
        patched = []

        def rec_split(cvobj):
            orig_split = cvobj.split

            def split(*a, **kw):
                for i, (tr_, te_) in enumerate(orig_split(*a, **kw)):
                    if i == 0 and recorded["folds"] is None:
                        recorded["folds"] = (np.array(tr_).copy(), np.array(te_).copy())
                    yield tr_, te_

            cvobj.split = split
            return cvobj

        if hasattr(R, "KFold"):
            KF = R.KFold
            patched.append((R, "KFold", KF))
            R.KFold = lambda *a, **kw: rec_split(KF(*a, **kw))
        if hasattr(R, "check_cv"):
            CC = R.check_cv
            patched.append((R, "check_cv", CC))
            R.check_cv = lambda *a, **kw: rec_split(CC(*a, **kw))
        news = {}
        self.fitno = {}
        try:
            for op in tr["ops"]:
                self.events += 1
                if op["op"] == "NEW":
                    if op["params"].get("alphas_from_sv"):
                        op = dict(op, params=self.alphas_from_sv(op["params"], X))
                    self.cur = op
                    news[op["obj"]] = op
                elif op["op"] == "MUTATE":
                    # in-place overwrite of the caller's buffers (same array objects)
                    spec = dict(tr["heap"]["X"])
                    if "kind" in spec:
                        spec["seed"] = op["seed"]
                        X2 = D.make_array(spec)
                    else:
                        X2 = np.random.RandomState(op["seed"] & 0x7FFFFFFF).standard_normal(X.shape)
                    rs = np.random.RandomState((op["seed"] + 1) & 0x7FFFFFFF)
                    y2 = (X2 @ rs.standard_normal((X.shape[1], 1 if y.ndim == 1 else y.shape[1]))).reshape(y.shape) + 0.1 * rs.standard_normal(y.shape)
                    if self.x_readonly:
                        X.setflags(write=True)
                    X[...] = X2
                    if self.x_readonly:
                        X.setflags(write=False)
                    y[...] = y2
                    self.stats["fired"]["caller:buffer_reused"] += 1
                elif op["op"] == "SET":
                    # the caller re-parameterises a fitted estimator (set_params) and will fit
                    # it again: the next fit is judged against the reference for the NEW
                    # parameters (nothing resolved from the old ones may survive)
                    base = news.get(op["obj"])
                    est = getattr(self, "ests", {}).get(op["obj"])
                    if base is None or est is None:
                        self.count("set_params_on_missing_object_skipped")
                        continue
                    newp = dict(base["params"])
                    newp.update(op["params"])
                    if "alphas" in op["params"]:
                        newp.pop("alphas_from_sv", None)
                        if "alphas_form" not in op["params"]:
                            newp.pop("alphas_form", None)  # the new grid is given as a plain list
                    news[op["obj"]] = dict(base, params=newp)
                    kw = self.est_kwargs(newp, X.shape[0])
                    try:
                        est.set_params(**{k: kw[k] for k in op["params"] if k in kw})
                        self.stats["fired"]["caller:reparameterised"] += 1
                        self.log.add("SET", op["obj"], sorted(op["params"]))
                    except Exception as e:  # noqa: BLE001
                        self.violate("set_params_raises", f"{type(e).__name__}: {e}")
                elif op["op"] == "FORK":
                    # the caller takes a shallow copy of a fitted estimator and keeps using both
                    src = getattr(self, "ests", {}).get(op["from"])
                    if src is not None and hasattr(src, "coef_"):
                        import copy as _copy

                        self.ests[op["obj"]] = _copy.copy(src)
                        news[op["obj"]] = dict(news.get(op["from"], self.cur), obj=op["obj"])
                        self.stats["fired"]["restart:shallow_copy_fork"] += 1
                elif op["op"] == "PREDICT_AFTER_REFILL":
                    # at the very end: the caller refills the buffer it had fitted on with a new
                    # batch and asks every fitted estimator for predictions on it
                    rs = np.random.RandomState(op["seed"] & 0x7FFFFFFF)
                    X2 = rs.standard_normal(X.shape) * (float(np.max(np.abs(X))) if X.size else 1.0)
                    if X.dtype.kind != "f":
                        X2 = np.round(X2)
                    if self.x_readonly:
                        X.setflags(write=True)
                    X[...] = X2.astype(X.dtype)
                    if self.x_readonly:
                        X.setflags(write=False)
                    self.stats["fired"]["caller:buffer_reused"] += 1
                    for nm, est in sorted(getattr(self, "ests", {}).items()):
                        if not hasattr(est, "coef_"):
                            continue
                        try:
                            pr = np.asarray(est.predict(X))
                            ex = np.asarray(X, dtype=float) @ np.asarray(est.coef_, dtype=float).T
                            if pr.shape != ex.shape or not np.allclose(pr, ex, rtol=1e-6 if X.dtype == np.float32 else 1e-10, atol=1e-12 * max(1.0, float(np.max(np.abs(ex))) if ex.size else 1.0) + (1e-5 * float(np.max(np.abs(ex))) if X.dtype == np.float32 else 0.0)):
                                self.violate("predict_wrong", f"after the caller refilled the array it had fitted on, predict(<that array>) is not X @ coef_.T for the values it holds now ({nm})")
                            else:
                                self.count("predict_on_refilled_buffer_checked")
                        except Exception as e:  # noqa: BLE001
                            self.violate("predict_raises", f"{type(e).__name__}: {e}")
                elif op["op"] == "FIT":
                    recorded["folds"] = None
                    self.fit(news.get(op["obj"], self.cur), op, X, y, recorded)
            self.lanes()
            # what every estimator reported at its last fit is still what it reports after all
            # the other estimators of the process were fitted (no fitted state shared between
            # objects - pooled work arrays, module-level caches)
            for nm, grids in sorted(getattr(self, "caller_grids", {}).items()):
                for g in grids:
                    # the caller refills the grid array it had passed in (the next, finer grid)
                    g[...] = g[::-1] * 0.37 + 0.011
                    self.stats["fired"]["caller:grid_array_reused"] += 1
            for nm, (cvv0, a0, b0, c0) in sorted(getattr(self, "last_reported", {}).items()):
                est = self.ests.get(nm)
                if est is None or nm in getattr(self, "refilled_predict_done", ()):
                    continue
                try:
                    now = (np.asarray(est.cv_values_, dtype=float), float(est.alpha_), float(est.best_score_), np.asarray(est.coef_, dtype=float))
                except Exception as e:  # noqa: BLE001
                    self.violate("public_state_missing", f"{type(e).__name__}: {e} (re-read at the end of the trace)")
                    continue
                same = (now[0].shape == cvv0.shape and np.array_equal(now[0], cvv0, equal_nan=True) and now[1] == a0
                        and (now[2] == b0 or (np.isnan(now[2]) and np.isnan(b0))) and now[3].shape == c0.shape and np.array_equal(now[3], c0, equal_nan=True))
                if not same:
                    self.violate("fitted_result_moved_by_later_activity", f"{nm}: cv_values_/alpha_/best_score_/coef_ read again at the end of the trace differ from what its last fit reported (alpha_ {now[1]!r} vs {a0!r}; max coef diff {float(np.max(np.abs(now[3] - c0))) if now[3].shape == c0.shape else 'shape'})")
                else:
                    self.count("fitted_result_unchanged_at_end_of_trace")
        finally:
            for mod, name, orig in patched:
                setattr(mod, name, orig)
            self.env.uninstall()
        st = self.stats
        sig = "|".join(
            [
                str(self.cur["params"]["alpha_type"]),
                str(self.cur["params"]["regularization_method"]),
                str(self.cur["params"]["scoring"]),
                "cv=" + ("none" if self.cur["params"]["cv"] is None else self.cur["params"]["cv"]["type"]),
                tr["heap"]["X"].get("kind", "explicit"),
                "tall" if X.shape[0] > X.shape[1] else "wide",
                ",".join(sorted(st["fired"])),
                ",".join(sorted(k for k in self.counters if k.startswith("skip") or k.startswith("out"))),
            ]
        )
        return {
            "violations": self.violations,
            "digest": self.log.hexdigest(),
            "fired": dict(st["fired"]),
            "probes": dict(st["probes"]),
            "counters": self.counters,
            "sim_seconds": st["sim_seconds"],
            "events": self.events,
            "signature": sig,
            "nontrivial": bool(self.counters.get("cv_values_compared", 0) >= 1),
        }

    def est_kwargs(self, params, n):
        """Constructor / set_params keyword arguments for the recorded parameters (argument
        forms resolved: tuple / ndarray grids, scorer objects, numpy scalars, cv objects)."""
        p = dict(params)
        cvspec = p.pop("cv")
        alphas = list(p["alphas"])
        af = p.pop("alphas_form", None)
        sf = p.pop("scoring_form", None)
        p.pop("alphas_from_sv", None)
        kw = dict(p)
        kw["cv"] = self.make_cv(cvspec, n)
        if af == "tuple":
            kw["alphas"] = tuple(alphas)
        elif af == "int_list":
            kw["alphas"] = [int(a) for a in alphas]
        elif af == "int_ndarray":
            kw["alphas"] = np.array([int(a) for a in alphas], dtype=np.int64)
        elif af:
            kw["alphas"] = np.array(alphas, dtype=float)
            if af == "ndarray_readonly":
                kw["alphas"].setflags(write=False)
        if sf == "scorer_object" and kw.get("scoring"):
            from sklearn.metrics import get_scorer

            kw["scoring"] = get_scorer(kw["scoring"])
        for k_, v_ in list(kw.items()):
            if isinstance(v_, dict) and "$npint" in v_:
                kw[k_] = getattr(np, v_.get("dtype", "int64"))(v_["$npint"])
        return kw

    def fit(self, new, op, X, y, recorded):
        from skmatter.linear_model import Ridge2FoldCV

        p = dict(new["params"])
        cvspec = p.pop("cv")
        n = X.shape[0]
        alphas = list(p["alphas"])
        p.pop("alphas_form", None)
        p.pop("scoring_form", None)
        kw = self.est_kwargs(new["params"], n)
        if cvspec is None and not p.get("shuffle", True) and p.get("random_state") is not None:
            # scikit-learn's KFold refuses a seed without shuffling: outside the quantifier
            # (only reduced traces get here; the generator never emits it)
            self.count("out_of_domain_seed_without_shuffle")
            return
        if isinstance(kw.get("alphas"), np.ndarray) and kw["alphas"].flags.writeable and kw["alphas"].dtype.kind == "f":
            if not hasattr(self, "caller_grids"):
                self.caller_grids = {}
            self.caller_grids.setdefault(new["obj"], []).append(kw["alphas"])  # the caller keeps its grid array
        if not hasattr(self, "ests"):
            self.ests = {}
        est = self.ests.get(new["obj"])
        if est is None or cvspec is not None and cvspec["type"] == "generator":
            try:
                est = Ridge2FoldCV(**kw)
            except Exception as e:  # noqa: BLE001
                self.violate("constructor_raises", f"{type(e).__name__}: {e}")
                return
            self.ests[new["obj"]] = est
        elif op.get("reparam"):
            self.stats["probes"]["refit_after_set_params_judged_on_new_parameters"] += 1
        else:
            self.stats["probes"]["refit_after_buffer_reuse"] += 1
        self.fitno[new["obj"]] = self.fitno.get(new["obj"], 0) + 1
        exc = None
        itr = (op.get("env") or {}).get("interrupt")
        with self.env.op({k: v for k, v in (op.get("env") or {}).items() if k != "interrupt"}) as out:
            try:
                if itr:
                    excs = {"KeyboardInterrupt": InjectedInterrupt, "MemoryError": InjectedMemoryError}[itr["exc"]]
                    with self.env.interrupter.armed(int(itr["at"]), excs):
                        est.fit(X, y)
                else:
                    est.fit(X, y)  # the caller's own buffers, not copies
            except (InjectedInterrupt, InjectedMemoryError) as e:
                exc = e
            except Exception as e:  # noqa: BLE001
                exc = e
        if exc is not None and is_injected(exc):
            self.count("fits_failed_by_injected_fault")
            self.stats["probes"]["fault_landed_inside_fit"] += 1
            self.after_crash = True
            self.fitno[new["obj"]] -= 1
            return
        if getattr(self, "after_crash", False):
            self.after_crash = False
            self.stats["probes"]["fit_after_crashed_fit_judged"] += 1
        desc = f"params={_short(p)} cv={cvspec} X={self.trace['heap']['X'].get('kind', 'explicit')}{list(X.shape)} joblib={(op.get('env') or {}).get('joblib')}"
        if exc is not None:
            self.count("fits_raised")
            self.log.add("FIT", new["obj"], "raise", type(exc).__name__)
            self.violate("fit_raises_in_domain", f"{type(exc).__name__}: {str(exc)[:200]} | {desc}", exc=type(exc).__name__)
            return
        self.count("fits_ok")
        folds = recorded["folds"]
        if folds is None and cvspec is None:
            # the default splitter was not consulted through the module-level seam (folds taken
            # from somewhere else, e.g. a cache): the documented assignment is then PREDICTED -
            # KFold(2, shuffle, random_state), an unseeded shuffle drawing from the ambient
            # generator whose state at the start of this operation the simulator set
            try:
                from sklearn.model_selection import KFold as _KF

                rsv = kw.get("random_state")
                if p.get("shuffle", True) and rsv is None:
                    rsv = np.random.RandomState(((op.get("env") or {}).get("rng") or {"seed": 12345}).get("seed", 12345) & 0x7FFFFFFF)
                tr_, te_ = next(_KF(n_splits=2, shuffle=p.get("shuffle", True), random_state=rsv).split(np.empty((n, 0))))
                folds = (np.array(tr_), np.array(te_))
                self.stats["probes"]["folds_predicted_not_observed"] += 1
            except Exception:  # noqa: BLE001
                folds = None
        if folds is None:
            self.count("folds_not_observed")
            return
        if cvspec is None and recorded["folds"] is not None and (not p.get("shuffle", True) or isinstance(kw.get("random_state"), (int, np.integer))):
            # where the default assignment is SPECIFIED - no shuffling, or an integer seed: the
            # first split of KFold(2, shuffle, random_state) - the folds the implementation
            # used must be that assignment (an unseeded shuffle has no specified assignment
            # and is judged on the folds actually used)
            try:
                from sklearn.model_selection import KFold as _KF

                tr_, te_ = next(_KF(n_splits=2, shuffle=p.get("shuffle", True), random_state=kw.get("random_state") if p.get("shuffle", True) else None).split(np.empty((n, 0))))
                if not (np.array_equal(np.asarray(folds[0]), tr_) and np.array_equal(np.asarray(folds[1]), te_)):
                    self.violate("folds_not_the_documented_assignment", f"cv=None, shuffle={p.get('shuffle', True)}, random_state={kw.get('random_state')!r}: folds used {np.asarray(folds[0]).tolist()} / {np.asarray(folds[1]).tolist()} are not the first split of KFold(2, shuffle, random_state)")
                    return
                self.count("default_folds_are_the_documented_ones")
            except Exception:  # noqa: BLE001
                pass
        f1, f2 = folds
        try:
            # private copies: what the fit reported is compared again at the end of the trace
            cvv = np.array(est.cv_values_, dtype=float, copy=True)
            alpha_ = float(est.alpha_)
            best = float(est.best_score_)
            coef = np.array(est.coef_, dtype=float, copy=True)
            if not hasattr(self, "last_reported"):
                self.last_reported = {}
            self.last_reported[new["obj"]] = (cvv, alpha_, best, coef)
        except Exception as e:  # noqa: BLE001
            self.violate("public_state_missing", f"{type(e).__name__}: {e} | {desc}")
            return
        self.log.add("FIT", new["obj"], "ok", cvv, alpha_, best, coef)
        if self.fitno[new["obj"]] == 1:
            self.results[new["obj"]] = (cvv, alpha_, best, coef, f1, f2, desc)
        # ---- domain of the oracle: spectra well away from the documented rank cut
        epsX = float(np.finfo(X.dtype).eps) if X.dtype.kind == "f" else EPS
        f1, f2 = (np.flatnonzero(f) if np.asarray(f).dtype == bool else np.asarray(f) for f in (f1, f2))
        ref = ref_ridge2fold(X, y, alphas, p["alpha_type"], p["regularization_method"], p["scoring"], f1, f2, eps=epsX)
        rt = ref["rank_tol"]  # relative: times the largest singular value of each matrix

        def cut(sv):
            return rt * (float(sv.max()) if sv.size else 0.0)

        X64 = np.asarray(X, dtype=float)
        svs = [np.linalg.svd(M, compute_uv=False) for M in (X64[f1], X64[f2], X64)]
        svs_native = svs if X.dtype == np.float64 else svs + [
            np.linalg.svd(M, compute_uv=False).astype(float) for M in (X[f1], X[f2], X) if M.dtype.kind == "f"
        ]
        if any(np.any((s > cut(s) / 3.0) & (s < cut(s) * 3.0)) for s in svs_native):
            self.count("out_of_domain_near_rank_cut")
            return
        if epsX != EPS:
            sd = X64.std(axis=0)
            if np.any(np.abs(X64.mean(axis=0)) > 1e2 * np.where(sd > 0, sd, np.inf)):
                # single-precision data with a large common offset keeps ~3 informative digits:
                # every score is dominated by cancellation (judged in double precision only)
                self.count("out_of_domain_single_precision_offset")
                return
            self.stats["probes"]["single_precision_X_judged"] += 1
        if len(f1) < 1 or len(f2) < 1:
            self.count("out_of_domain_empty_fold")
            return
        smax = max(float(s.max()) for s in svs)
        kept_min = min(float(s[s > cut(s)].min()) if np.any(s > cut(s)) else 1.0 for s in svs)
        cond = smax / kept_min
        yscale = float(np.max(np.abs(y))) if np.size(y) else 1.0
        # ---- per-alpha CV values
        if cvv.shape != ref["cv"].shape:
            self.violate("cv_values_shape", f"{cvv.shape} vs {ref['cv'].shape} | {desc}")
            return
        amb = np.zeros(len(alphas), dtype=bool)
        exact = np.zeros(len(alphas), dtype=bool)
        if p["regularization_method"] == "cutoff" and X.dtype == np.float64 and p["alpha_type"] == "absolute":
            # a grid value bit-identical to a singular value: `s > alpha` is exactly False, no
            # rounding decision - provided LAPACK returns the same bits for every memory layout
            mats = (X64[f1], X64[f2], X64)
            svs_uv = [np.linalg.svd(M, full_matrices=False)[1] for M in mats]  # the estimator's own call
            robust = all(
                np.array_equal(sv, np.linalg.svd(np.ascontiguousarray(M), full_matrices=False)[1])
                and np.array_equal(sv, np.linalg.svd(np.asfortranarray(M), full_matrices=False)[1])
                for sv, M in zip(svs_uv, mats)
            )
            for i, a in enumerate(ref["scaled"]):
                hits = [sv[np.abs(sv - a) <= 1e-9 * max(float(sv.max()), 1e-300)] for sv in svs_uv]
                near = np.concatenate(hits) if hits else np.zeros(0)
                if robust and near.size and np.all(near == a):
                    exact[i] = True
        if p["regularization_method"] == "cutoff":
            for i, a in enumerate(ref["scaled"]):
                if exact[i]:
                    self.stats["probes"]["cutoff_alpha_exactly_at_a_singular_value_judged"] += 1
                    continue
                for s in svs:
                    if np.any((s > cut(s)) & (np.abs(s - a) <= max(1e-9, 100 * epsX if epsX != EPS else 0.0) * smax)):
                        amb[i] = True
        sc_scale = max(1.0, yscale**2 if p["scoring"] in (None, "neg_mean_squared_error") else yscale)
        if p["scoring"] == "r2":
            sc_scale = 1.0 + float(np.max(np.abs(ref["cv"][np.isfinite(ref["cv"])]))) if np.any(np.isfinite(ref["cv"])) else 1.0
        rel = max(1e-7, 2e3 * epsX) if epsX != EPS else 1e-7
        tol = rel * sc_scale * max(1.0, cond * epsX * 1e4)
        for i in range(len(alphas)):
            if amb[i]:
                self.count("skip_alpha_at_singular_value")
                continue
            a, b = cvv[i], ref["cv"][i]
            if not (np.isfinite(a) and np.isfinite(b)):
                if np.isfinite(a) != np.isfinite(b):
                    self.violate("cv_value_wrong", f"alpha[{i}]={alphas[i]}: cv_values_ {a} vs explicit two-fold {b} | {desc}")
                    return
                continue
            # ... plus the relative allowance on the value itself (an extrapolating fold can
            # score orders of magnitude beyond the scale of y)
            if abs(a - b) > tol + rel * abs(b):
                self.violate(
                    "cv_value_wrong",
                    f"alpha[{i}]={alphas[i]} (scaled {ref['scaled'][i]:.6g}): cv_values_ {a!r} vs explicit two-fold value {b!r} (tol {tol:.3g}) | {desc}",
                    method=p["regularization_method"],
                    alpha_type=p["alpha_type"],
                    scoring=str(p["scoring"]),
                )
                return
            self.count("cv_values_compared")
        # ---- chosen alpha: any grid value whose reference value is within tol of the best
        fin = np.where(np.isfinite(ref["cv"]), ref["cv"], -np.inf)
        idxs = [i for i, a in enumerate(alphas) if float(a) == alpha_]
        if not idxs:
            self.violate("alpha_not_in_grid", f"alpha_={alpha_} not in {alphas} | {desc}")
            return
        if not any(amb):
            tolb = 2 * tol + 2 * rel * abs(float(fin.max())) if np.isfinite(fin.max()) else 2 * tol
            if not any(fin[i] >= fin.max() - tolb for i in idxs):
                self.violate(
                    "alpha_not_best",
                    f"alpha_={alpha_} has explicit CV value {max(fin[i] for i in idxs)!r}, best is {fin.max()!r} at {alphas[int(np.argmax(fin))]} | {desc}",
                )
                return
            if abs(best - fin.max()) > tolb:
                self.violate("best_score_wrong", f"best_score_={best!r} vs {fin.max()!r} | {desc}")
                return
            self.count("alpha_checked")
        # ---- final coefficients for the alpha the implementation chose
        i0 = idxs[0]
        if p["regularization_method"] == "cutoff" and not all(exact[i] for i in idxs) and any(
            np.any((svs[2] > cut(svs[2])) & (np.abs(svs[2] - ref["scaled"][i]) <= max(1e-9, 100 * epsX if epsX != EPS else 0.0) * smax)) for i in idxs
        ):
            self.count("skip_coef_alpha_at_singular_value")
        else:
            rc = np.asarray(ref["final_coef"](i0))
            if y.ndim == 1:
                rc = rc.reshape(-1)
            if coef.shape != rc.shape:
                self.violate("coef_shape", f"coef_ {coef.shape} vs {rc.shape} | {desc}", y_ndim=int(y.ndim))
                return
            cn = max(float(np.max(np.abs(rc))), 1e-300)
            ctol = cn * max(rel, cond * epsX * 1e4) + 1e-12
            d = float(np.max(np.abs(coef - rc))) if np.all(np.isfinite(coef)) else float("inf")
            if d > ctol:
                self.violate(
                    "coef_wrong",
                    f"coef_ differs from the regularised full-data solution in the numerical-rank subspace by {d:.3g} "
                    f"(|coef| ref {cn:.3g}, impl {float(np.max(np.abs(coef))) if np.all(np.isfinite(coef)) else 'non-finite'}, tol {ctol:.3g}); alpha_={alpha_} | {desc}",
                    rank_deficient=bool(np.any(svs[2] <= cut(svs[2]))),
                    alpha_zero=bool(ref["scaled"][i0] == 0.0),
                    method=p["regularization_method"],
                )
                return
            self.count("coef_checked")
            if np.any(svs[2] <= cut(svs[2])):
                self.stats["probes"]["rank_deficient_final_solution_checked"] += 1
                if ref["scaled"][i0] <= 1e-10 * smax**2:
                    self.stats["probes"]["rank_deficient_with_tiny_alpha_chosen"] += 1
        # ---- predict
        rs = np.random.RandomState(self.trace["predict_seed"] & 0x7FFFFFFF)
        Xn = rs.standard_normal((5, X.shape[1]))
        try:
            pr = np.asarray(est.predict(Xn))
            ex = Xn @ coef.T
            if pr.shape != ex.shape or not np.allclose(pr, ex, rtol=1e-10, atol=1e-12 * max(1.0, float(np.max(np.abs(ex))) if ex.size else 1.0)):
                self.violate("predict_wrong", f"predict(X) is not X @ coef_.T | {desc}")
        except Exception as e:  # noqa: BLE001
            self.violate("predict_raises", f"{type(e).__name__}: {e} | {desc}")
        if op.get("then_set_alphas"):
            # the caller re-parameterises the fitted estimator (another grid) without fitting
            # again: what the fit reported (cv_values_, alpha_, best_score_, coef_) describes
            # the fit that was made and must not move
            hi = 0.9 if p["alpha_type"] == "relative" else 1e300
            alt = [min(hi, float(a) * 0.5 + 1e-3) for a in alphas] + [min(hi, 0.7)]
            orig_alphas = est.alphas
            try:
                est.set_params(alphas=np.array(alt))
                now = (np.asarray(est.cv_values_, dtype=float), float(est.alpha_), float(est.best_score_), np.asarray(est.coef_, dtype=float))
                same = (
                    now[0].shape == cvv.shape and np.array_equal(now[0], cvv, equal_nan=True)
                    and now[1] == alpha_ and (now[2] == best or (np.isnan(now[2]) and np.isnan(best)))
                    and now[3].shape == coef.shape and np.array_equal(now[3], coef, equal_nan=True)
                )
                if not same:
                    self.violate(
                        "fitted_result_moved_by_set_params",
                        f"after set_params(alphas=<another grid>) without a new fit the estimator reports alpha_={now[1]!r} "
                        f"(was {alpha_!r}), best_score_={now[2]!r} (was {best!r}) | {desc}",
                    )
                else:
                    self.count("fitted_result_stable_under_set_params")
            except Exception as e:  # noqa: BLE001
                self.count("set_params_after_fit_raised:" + type(e).__name__)
            finally:
                try:
                    est.set_params(alphas=orig_alphas)
                except Exception:  # noqa: BLE001
                    pass

    def lanes(self):
        """The same configuration under different task schedules must give the same
        numbers (when the folds do not depend on the ambient RNG)."""
        # (e9 is the unrelated earlier estimator with other fold parameters, not a lane)
        names = sorted(n for n in self.results if n != "e9" and not n.endswith("c"))  # (nor the shallow copy)
        if len(names) < 2:
            return
        a = self.results[names[0]]
        for nm in names[1:]:
            b = self.results[nm]
            if not (np.array_equal(a[4], b[4]) and np.array_equal(a[5], b[5])):
                self.count("lanes_with_different_folds")
                continue
            self.count("lane_pairs")
            same = (
                a[0].shape == b[0].shape
                and np.allclose(a[0], b[0], rtol=1e-12, atol=0, equal_nan=True)
                and a[1] == b[1]
                and np.allclose(a[3], b[3], rtol=1e-12, atol=0, equal_nan=True)
            )
            if not same:
                self.violate(
                    "schedule_dependent_result",
                    f"identical fits under different joblib schedules differ: cv_values_ {a[0].tolist()} vs {b[0].tolist()}, alpha_ {a[1]} vs {b[1]} | {a[6]} || {b[6]}",
                )


def _layout(a, storage):
    """The caller's memory layout: Fortran order, a strided view into a larger buffer, or
    a read-only array (same values)."""
    if storage == "F":
        return np.asfortranarray(a)
    if storage == "view":
        if a.ndim == 2:
            buf = np.zeros((2 * a.shape[0] + 1, 2 * a.shape[1] + 1), dtype=a.dtype)
            v = buf[1::2, 1::2]
        else:
            buf = np.zeros(2 * a.shape[0] + 1, dtype=a.dtype)
            v = buf[1::2]
        v[...] = a
        return v
    if storage == "readonly":
        b = np.array(a, copy=True)
        b.setflags(write=False)
        return b
    return a


def _short(p):
    q = dict(p)
    q["alphas"] = [float(f"{a:.4g}") for a in q["alphas"]]
    return q


# ----------------------------------------------------------------------------- reductions


def reductions(trace):
    ops = trace["ops"]
    # fewer lanes
    if len(ops) > 2:
        for keep in (ops[:2], ops[2:4]):
            t = copy.deepcopy(trace)
            t["ops"] = copy.deepcopy(keep)
            yield t
    # without the buffer-reuse refit
    if any(o["op"] == "MUTATE" for o in ops):
        t = copy.deepcopy(trace)
        k = next(i for i, o in enumerate(ops) if o["op"] == "MUTATE")
        t["ops"] = t["ops"][:k]
        yield t
    # quiet schedule / rng
    for i, o in enumerate(ops):
        if o["op"] == "FIT" and o.get("env"):
            for k in list(o["env"]):
                t = copy.deepcopy(trace)
                del t["ops"][i]["env"][k]
                yield t
    # fewer alphas
    for i, o in enumerate(ops):
        if o["op"] == "NEW" and len(o["params"]["alphas"]) > 1:
            al = o["params"]["alphas"]
            for j in range(len(al)):
                t = copy.deepcopy(trace)
                for k, o2 in enumerate(t["ops"]):
                    if o2["op"] == "NEW" and len(o2["params"]["alphas"]) == len(al):
                        o2["params"]["alphas"] = al[:j] + al[j + 1 :]
                yield t
            break
    # simpler parameters
    for key, val in (("scoring", None), ("n_jobs", None), ("cv", None), ("shuffle", False), ("random_state", 0)):
        if any(o["op"] == "NEW" and o["params"].get(key, val) != val for o in ops):
            t = copy.deepcopy(trace)
            for o2 in t["ops"]:
                if o2["op"] == "NEW":
                    o2["params"][key] = val
                    if key == "cv":
                        o2["params"].setdefault("shuffle", False)
            yield t
    # explicit, smaller data (only when cv does not carry explicit indices)
    if all(o["params"].get("cv") is None or o["params"]["cv"]["type"] == "kfold" for o in ops if o["op"] == "NEW"):
        X = D.make_array(trace["heap"]["X"])
        y = build_y(trace, trace["heap"])
        cands = []
        if X.shape[0] > 4:
            cands.append((X[: max(4, X.shape[0] // 2)], y[: max(4, X.shape[0] // 2)]))
            cands.append((X[:-1], y[:-1]))
        if X.shape[1] > 1:
            cands.append((X[:, : max(1, X.shape[1] // 2)], y))
            cands.append((X[:, :-1], y))
        if y.ndim == 2 and y.shape[1] > 1:
            cands.append((X, y[:, :1]))
        for Xs, ys in cands:
            t = copy.deepcopy(trace)
            t["heap"] = {"X": dict(arr_to_hex(Xs), storage="C")}
            t["y"] = {"explicit": arr_to_hex(ys)}
            yield t


class RidgeScenario:
    pid = "C10"

    def preload(self):
        import skmatter.linear_model._ridge  # noqa: F401

    def anchor_files(self):
        return ["linear_model/_ridge.py"]

    def plan(self, tier):
        q, f = {"quick": (6000, 6000), "thorough": (300000, 300000)}[tier]
        return {"quiet": q, "faults": f, "timeout": 120.0, "budget": 75.0 if tier == "quick" else 3600.0, "slice": 40}

    def generate(self, rng, idx, tier, faults):
        tr = gen_c10(rng, idx, tier, faults)
        tr["property"] = "C10"
        return tr

    def execute(self, trace):
        return RidgeWorld(trace).run()

    def reductions(self, trace):
        return reductions(trace)

    def describe(self, trace, res):
        return {
            "X": {k: v for k, v in trace["heap"]["X"].items() if k != "hex"},
            "y": {k: v for k, v in trace["y"].items() if k != "explicit"},
            "ops": trace["ops"],
            "faults_fired": res["fired"],
            "counters": res["counters"],
            "digest": res["digest"],
        }

    def rule(self):
        return (
            "Each run is one explicit trace (X recipe, y = XW + noise*E, Ridge2FoldCV configuration incl. cv object, "
            "one or two lanes that differ only in n_jobs / joblib schedule / ambient RNG seed) executed against the real "
            "Ridge2FoldCV with the simulated joblib backend; cv_values_, alpha_, best_score_, coef_ and predict are "
            "compared with an explicit two-fold regularised least-squares model in plain numpy on the folds actually "
            "used (observed through the module-level KFold/check_cv seams). Signature = (alpha_type, method, scorer, cv "
            "kind, data kind, tall/wide, fault kinds fired, skip reasons); non-trivial = at least one per-alpha CV value "
            "was compared with the reference."
        )

    def required_probes(self, tier):
        return ["rank_deficient_final_solution_checked", "task_executed_out_of_submission_order"]

    def real_components(self):
        return [
            "skmatter.linear_model.Ridge2FoldCV (unmodified, from /repo/src)",
            "joblib.Parallel dispatch/retrieval logic",
            "scikit-learn KFold/check_cv/scorers",
            "numpy LAPACK SVD",
        ]

    def stub_components(self):
        return [
            "joblib backend (execution order, batching, process-like isolation, at-least-once execution, shared-memory threads with seeded line-level interleaving)",
            "ambient numpy RNG state that draws the folds when random_state=None",
            "fold observation wrappers around the module-level KFold / check_cv names",
        ]

    def assumptions(self):
        return [
            "the rank decision s > max(n,m)*eps is taken from LAPACK singular values of X and of both folds; traces with a singular value within a factor 3 of that cut are counted as out_of_domain and not judged",
            "cut-off alphas within 1e-9*s_max of a singular value are skipped (inclusion of that direction is a rounding decision)",
            "tolerances: 1e-7*scale*max(1, cond*eps*1e4) for CV values, the same relative bound for coefficients",
            "in the 'threads' schedule tasks are pre-empted only at line events inside skmatter code (one thread runs at a time)",
        ]
