"""The selector machine: operation histories on greedy selectors under the simulated
environment. Serves C01 (cross-view invariants), C06 (Voronoi FPS vs brute-force FPS
under every clock) and C08 (history independence against a history-free twin)."""

import contextlib
import os
import copy
import importlib
import json
import numbers
import pickle

import numpy as np

from . import data as D
from .env import ClockReadCap, Env, InjectedInterrupt, InjectedMemoryError, is_injected, new_stats
from .refmodels import (
    FPSReference,
    fps_tau,
    ref_pcovr_covariance,
    ref_pcovr_kernel,
    resolve_n_to_select,
    spectrum_gap,
)
from .util import EPS, Digest, subseed

SEL = {
    "feature.FPS": dict(mod="skmatter.feature_selection", cls="FPS", axis=1, y="opt", fam="fps"),
    "sample.FPS": dict(mod="skmatter.sample_selection", cls="FPS", axis=0, y="opt", fam="fps"),
    "feature.PCovFPS": dict(mod="skmatter.feature_selection", cls="PCovFPS", axis=1, y="req", fam="pcovfps"),
    "sample.PCovFPS": dict(mod="skmatter.sample_selection", cls="PCovFPS", axis=0, y="req", fam="pcovfps"),
    "feature.CUR": dict(mod="skmatter.feature_selection", cls="CUR", axis=1, y="opt", fam="cur"),
    "sample.CUR": dict(mod="skmatter.sample_selection", cls="CUR", axis=0, y="opt", fam="cur"),
    "feature.PCovCUR": dict(mod="skmatter.feature_selection", cls="PCovCUR", axis=1, y="req", fam="pcovcur"),
    "sample.PCovCUR": dict(mod="skmatter.sample_selection", cls="PCovCUR", axis=0, y="req", fam="pcovcur"),
    "sample.VoronoiFPS": dict(mod="skmatter.sample_selection", cls="VoronoiFPS", axis=0, y="opt", fam="voronoi"),
}
FPS_LIKE = ("fps", "pcovfps", "voronoi")


def get_class(name):
    s = SEL[name]
    return getattr(importlib.import_module(s["mod"]), s["cls"])


# =========================================================================== executor


class FitRecord:
    """What the monitors saw during one fit."""

    def __init__(self, obj, axis, tables=False):
        self.obj = obj
        self.axis = axis
        self.tables = tables  # read the distance table at every step boundary (C06 only:
        # a harness-side read inside fit must not be able to mask a read with side effects)
        self.steps = []  # snapshots at step boundaries: (n_selected, idx copy, table copy)
        self.scores = []  # (n_selected at call, scores copy)
        self.active = []  # voronoi: (n_active, n_total, full_fraction)
        self.exc = None
        self.warnings = []
        self.ret_is_self = None
        self.clock_reads = 0

    def on_step(self, i, phase):
        o = self.obj
        try:
            ns = int(o.n_selected_)
            idx = np.array(o.selected_idx_[:ns], dtype=int, copy=True)
        except InjectedMemoryError:
            raise
        except Exception:  # noqa: BLE001
            return
        table = None
        gd = getattr(o, "get_distance", None) if self.tables else None
        if gd is not None:
            try:
                table = np.array(gd(), dtype=float, copy=True)
            except InjectedMemoryError:
                raise
            except Exception:  # noqa: BLE001
                table = None
        self.steps.append((ns, idx, table))


class SelectorWorld:
    """Executes a selector trace. Pure function of (trace, code under test)."""

    def __init__(self, trace, pid):
        self.trace = trace
        self.pid = pid
        self.stats = new_stats()
        self.env = Env(self.stats)
        self.heap = D.Heap()
        self.objs = {}  # name -> estimator
        self.meta = {}  # name -> dict(cls, params, fits, refs, ...)
        self.violations = []
        self.log = Digest()
        self.counters = {}
        self.events = 0
        self._cur = None

    # ---- bookkeeping
    def count(self, k, n=1):
        self.counters[k] = self.counters.get(k, 0) + n

    def probe(self, k):
        self.stats["probes"][k] += 1

    def violate(self, clause, cls, detail, **facts):
        facts = dict(facts)
        facts.setdefault("cls", cls)
        self.violations.append({"clause": clause, "cls": cls, "detail": detail, "facts": facts})

    # ---- monitors (class-level wrappers, removed at exit)
    @contextlib.contextmanager
    def monitors(self):
        patched = []
        world = self

        def wrap_score(cls):
            orig = cls.__dict__.get("score")
            if orig is None:
                return

            def score(self_, *a, **kw):
                r = orig(self_, *a, **kw)
                cur = world._cur
                if cur is not None and cur.obj is self_:
                    try:
                        cur.scores.append((int(self_.n_selected_), np.array(r, dtype=float, copy=True)))
                    except Exception:  # noqa: BLE001
                        pass
                return r

            cls.score = score
            patched.append((cls, "score", orig))

        seen = set()
        for name in SEL:
            c = get_class(name)
            for k in c.__mro__:
                if k.__module__.startswith("skmatter") and k not in seen and "score" in k.__dict__:
                    seen.add(k)
                    wrap_score(k)
        V = get_class("sample.VoronoiFPS")
        ga = V.__dict__.get("_get_active")
        if ga is not None:

            def _get_active(self_, X, last_selected):
                r = ga(self_, X, last_selected)
                cur = world._cur
                if cur is not None and cur.obj is self_:
                    try:
                        cur.active.append((len(r), X.shape[0], self_.full_fraction))
                    except Exception:  # noqa: BLE001
                        pass
                return r

            V._get_active = _get_active
            patched.append((V, "_get_active", ga))
        try:
            yield
        finally:
            for cls, name, orig in patched:
                setattr(cls, name, orig)

    # ---- dynamic arguments
    def resolve_param(self, v, objname=None):
        if isinstance(v, dict):
            if "$ndarray" in v:
                return np.array(v["$ndarray"], dtype=int)
            if "$npint" in v:
                return getattr(np, v.get("dtype", "int64"))(v["$npint"])
            if "$npfloat" in v:
                return getattr(np, v.get("dtype", "float64"))(v["$npfloat"])
            if "$fraction" in v:
                from fractions import Fraction

                return Fraction(int(v["$fraction"][0]), int(v["$fraction"][1]))
            if "$rs" in v:
                return np.random.RandomState(int(v["$rs"]))  # a generator instance as random_state
            if "$prefix_of" in v:
                src = self.objs.get(v["$prefix_of"])
                try:
                    idx = [int(i) for i in src.selected_idx_[: int(src.n_selected_)]]
                except Exception:  # noqa: BLE001
                    return 0
                k = max(1, min(int(v.get("len", 1)), len(idx)))
                return idx[:k]
            if "$c06_thr" in v:
                # a fraction of the farthest distance left after a brute-force run of the
                # longest request of this trace from the same start
                try:
                    Xp = self.heap.pristine("X0")
                    n = Xp.shape[0]
                    reqs = [o["params"]["n_to_select"] for o in self.trace["ops"] if o["op"] in ("NEW", "SET") and "n_to_select" in o["params"]]
                    N = max(resolve_n_to_select(self.resolve_param(r), n) for r in reqs)
                    init = self.meta[objname]["params"].get("initialize", 0) if objname in self.meta else 0
                    ref = FPSReference(Xp)
                    ref.add(int(init) % n if isinstance(init, numbers.Integral) else 0)
                    while len(ref.selected) < min(N, n):
                        ref.add(int(np.argmax(ref.mind)))
                    M = float(np.max(ref.mind))
                    return float(v["$c06_thr"]) * M if M > 0 else None
                except Exception:  # noqa: BLE001
                    return None
            if "$unreached" in v:
                m = self.meta[objname]
                lo = m.get("twin_score_min")
                hi = m.get("twin_score_max")
                first = m.get("twin_score_first")
                if v.get("upto") and m.get("twin_chosen"):
                    # missed by the first `upto` selections only (the scores recorded at the
                    # steps that made selections 2..upto; the first pick of the FPS family is
                    # not scored)
                    part = [c for ns_at, c in m["twin_chosen"] if ns_at < int(v["upto"]) and np.isfinite(c)]
                    if part:
                        lo = min(part)
                        self.probe("threshold_missed_by_the_first_fit_only")
                if lo is None or not np.isfinite(lo) or lo <= 0:
                    return None
                if v.get("type") == "relative":
                    if v.get("at_construction") and first and np.isfinite(first) and first > 0:
                        # reference latched at the first step of the cold fit
                        return float(v["$unreached"]) * float(lo) / float(first)
                    return float(v["$unreached"]) * float(lo) / float(hi)
                return float(v["$unreached"]) * float(lo)
        return v

    def make_obj(self, clsname, params, objname=None):
        p = {k: self.resolve_param(v, objname) for k, v in params.items()}
        return get_class(clsname)(**p), p

    # ---- main loop
    def run(self):
        tr = self.trace
        for name, spec in tr["heap"].items():
            self.heap.add(name, D.make_array(spec), spec.get("storage", "C"))
        self.env.install()
        try:
            with self.monitors():
                for i, op in enumerate(tr["ops"]):
                    self.events += 1
                    getattr(self, "op_" + op["op"])(op, i)
                    # the history applied to each object so far, as data (clock lanes are only
                    # comparable where their objects went through the SAME operations with the
                    # same outcomes - ok / failed / skipped)
                    mo = self.meta.get(op.get("obj")) if op.get("obj") else None
                    if mo is not None:
                        desc = {k: v for k, v in op.items() if k not in ("obj", "env", "lane", "lane_of", "from")}
                        mo.setdefault("opsig", []).append(
                            (json.dumps(desc, sort_keys=True, default=str), mo.get("fits"), mo.get("ok_fits"))
                        )
                if self.pid == "C06":
                    self.c06_lanes()
                    forced = {tuple(o["env"]["clock"].get("bits", [])) for o in tr["ops"] if o["op"] == "FIT" and (o.get("env") or {}).get("clock", {}).get("mode") == "force"}
                    if len(forced) == 128:
                        self.probe("all_128_calibration_outcomes_forced_on_one_input")
                if self.pid == "C08" and tr.get("exhaustive_schedules"):
                    self.probe(f"every_increasing_schedule_up_to_{tr['exhaustive_schedules']}_on_one_input")
        finally:
            self.env.uninstall()
            self.heap.close()
        return self.result()

    def result(self):
        st = self.stats
        fired = dict(st["fired"])
        probes = dict(st["probes"])
        kinds = ",".join(f"{o['op']}" + ("w" if o.get("warm") else "") for o in self.trace["ops"])
        classes = ",".join(sorted({str(m.get("cls")) for m in self.meta.values()}))
        sig = "|".join([classes, kinds, ",".join(sorted(fired)), ",".join(sorted(probes))])
        return {
            "violations": self.violations,
            "digest": self.log.hexdigest(),
            "fired": fired,
            "probes": probes,
            "counters": self.counters,
            "sim_seconds": st["sim_seconds"],
            "events": self.events,
            "signature": sig,
            "nontrivial": bool(self.counters.get("fits_ok", 0) >= 1 and self.counters.get("selections", 0) >= 2),
        }

    # ---- ops
    def op_NEW(self, op, i):
        name = op["obj"]
        self.meta[name] = {
            "cls": op["cls"],
            "params": dict(op["params"]),
            "fits": 0,
            "ok_fits": 0,
            "ref": None,
            "lane": op.get("lane"),
            "first_score": None,
            "retired": False,
            "history": [],
            "data": None,
            "twin_score_min": None,
            "twin_score_max": None,
            "final": op.get("final"),
            "twin_from": op.get("twin_from"),
            "twin_seqs": [],
        }
        if self.pid == "C08" and op.get("X") and not op.get("twin_from"):
            # the final cold fit (no threshold) gives the score range from which thresholds
            # that a cold fit provably does not reach are derived
            base = {k: v for k, v in op["params"].items() if not (isinstance(v, dict) and "$unreached" in v) and k != "score_threshold_type"}
            self.meta[name]["resolved"] = {k: self.resolve_param(v, name) for k, v in base.items()}
            self.c08_prepare(name, self.meta[name], {"X": op["X"], "y": op.get("y")})
        if op.get("twin_from"):
            # an FPS object initialised with the prefix selected by another object: only
            # meaningful while that object is a successfully fitted selector whose parameters
            # describe its selections (domain guard, also for reduced traces)
            src, sm = self.objs.get(op["twin_from"]), self.meta.get(op["twin_from"])
            init = op["params"].get("initialize")
            try:
                ok = (src is not None and sm is not None and not sm.get("retired_for_warm") and sm["ok_fits"] > 0
                      and not sm.get("c08_threshold_reached")
                      and int(src.n_selected_) > 0 and isinstance(init, dict) and init.get("$prefix_of") == op["twin_from"]
                      # ... and the arrays it selected from still hold the same values
                      and sm.get("data_snap") is not None and sm["data_snap"][0] == self.heap.entries[sm["data"][0]]["snap"])
            except Exception:  # noqa: BLE001
                ok = False
            if not ok:
                self.objs[name] = None
                self.meta[name]["retired"] = True
                self.count("out_of_domain_prefix_source_not_fitted")
                return
        try:
            obj, p = self.make_obj(op["cls"], op["params"], name)
        except Exception as e:  # noqa: BLE001
            self.objs[name] = None
            self.meta[name]["retired"] = True
            self.log.add("NEW", name, op["cls"], "raise", type(e).__name__)
            self.count("new_raised")
            return
        self.meta[name]["resolved"] = p
        self.objs[name] = obj
        self.log.add("NEW", name, op["cls"])

    def op_SET(self, op, i):
        name = op["obj"]
        obj = self.objs.get(name)
        if obj is None:
            return
        m = self.meta[name]
        for k, v in op["params"].items():
            rv = self.resolve_param(v, name)
            done = False
            if op.get("how") == "set_params":
                try:
                    obj.set_params(**{k: rv})
                    done = True
                    self.count("set_by_set_params")
                except ValueError:
                    # VoronoiFPS hides the inherited parameters from get_params (**kwargs
                    # constructor), so set_params refuses them: plain assignment instead
                    self.count("set_params_refused_attribute_assigned")
            if not done:
                setattr(obj, k, rv)
            m["params"][k] = v
            m["resolved"][k] = rv
        self.log.add("SET", name, sorted(op["params"]))

    def op_READ(self, op, i):
        """A public read between fits (get_support forms, distances, transform, score).
        Reads must not disturb the state the next operation starts from."""
        name = op["obj"]
        obj = self.objs.get(name)
        m = self.meta.get(name)
        if obj is None or m is None or m["retired"] or m["ok_fits"] == 0:
            return
        meth = op["method"]
        kw = dict(op.get("kwargs") or {})
        args = []
        if meth in ("transform", "score") and m.get("data"):
            args.append(self.heap.get(m["data"][0]))
            if meth == "score":
                args.append(self.heap.get(m["data"][1]) if m["data"][1] else None)
        try:
            with self.env.op(None):
                res = getattr(obj, meth)(*args, **kw)
            if op.get("scribble") and isinstance(res, np.ndarray) and res.dtype.kind == "f" and res.flags.writeable:
                res *= -3.0
                res += 1.0
                self.count("caller_rescaled_the_transform_result_in_place")
            self.log.add("READ", name, meth, "ok")
            self.count("reads_ok")
        except Exception as e:  # noqa: BLE001
            self.log.add("READ", name, meth, "raise", type(e).__name__)
            self.count("reads_raised")
        self._c01_recheck(name, obj, m, f"after a {meth}({kw}) read", after_read=meth)

    def _c01_recheck(self, name, obj, m, what, **facts):
        """The cross-view invariants of the last successful fit still hold (after a read, after
        a call the library rejected, after the caller reused an array it had passed in)."""
        last = m.get("last_ok")
        if self.pid != "C01" or last is None or m.get("retired_for_warm"):
            return
        lop, lrec, n_before = last
        X = self.heap.get(lop["X"])
        y = self.heap.get(lop["y"]) if lop.get("y") else None
        nv = len(self.violations)
        saved = m["first_score"]
        cur = m["resolved"]
        if m.get("ok_params") is not None:
            m["resolved"] = m["ok_params"]  # the request of the last successful fit
        try:
            self.c01_invariants(name, obj, m, lop, lrec, X, y, n_before)
        finally:
            m["resolved"] = cur
        m["first_score"] = saved
        for v in self.violations[nv:]:
            v["detail"] = f"{what}: " + v["detail"]
            v["facts"].update(facts)

    def op_SCRIBBLE_PARAM(self, op, i):
        """The caller reuses an index array it had passed as a hyper-parameter (initialize=
        <ndarray>): the fitted selector must not follow (it may not alias the caller's array)."""
        name = op["obj"]
        obj, m = self.objs.get(name), self.meta.get(name)
        if obj is None or m is None or m["retired"] or m["ok_fits"] == 0:
            return
        arr = m["resolved"].get(op["param"])
        if not isinstance(arr, np.ndarray) or arr.size < 2 or not arr.flags.writeable:
            return
        arr[...] = arr[::-1].copy()  # the same indices in another order: still a legal value
        self.stats["fired"]["caller:index_array_reused"] += 1
        self.log.add("SCRIBBLE", name, op["param"])
        self._c01_recheck(name, obj, m, f"after the caller reordered the {op['param']} array it had passed in", after_param_reuse=True)

    def op_MUTATE(self, op, i):
        """The caller overwrites one of its own arrays in place (buffer reuse)."""
        vals = D.make_array(op["recipe"])
        if self.heap.mutate(op["h"], vals):
            self.stats["fired"]["caller:buffer_reused"] += 1
            self.log.add("MUTATE", op["h"])
            for m in self.meta.values():
                if m.get("data") and op["h"] in m["data"]:
                    # the caller's array that was passed to the last fit now holds other
                    # values: reads that take it as an argument would see them
                    m["last_ok"] = None
                    m["data_mutated"] = True
                    if self.pid == "C01":
                        # C01 histories continue on the array object: not "the same data" any more
                        m["retired_for_warm"] = True
                    # C06/C08: a continuation is in the domain iff it is given the same
                    # *values* (possibly in another array object) - decided by op_FIT

    def op_FORK(self, op, i):
        """The caller takes a shallow copy of a fitted selector (copy.copy) and keeps using
        both: the copy shares the fitted arrays with the original, so a continuation of one
        must not write into them."""
        src, name = op["from"], op["obj"]
        obj = self.objs.get(src)
        m = self.meta.get(src)
        if obj is None or m is None or m["retired"] or m["ok_fits"] == 0 or m.get("retired_for_warm"):
            self.objs[name] = None
            self.meta[name] = dict(m or {}, retired=True) if m else {"retired": True, "cls": None, "ok_fits": 0}
            return
        self.objs[name] = copy.copy(obj)
        m2 = dict(m)
        m2["params"] = dict(m["params"])
        m2["resolved"] = dict(m["resolved"])
        m2["history"] = list(m["history"])
        m["shadow_rs_unknown"] = True  # a shallow copy shares the caller's generator instance
        m2["shadow_rs_unknown"] = True
        m2["lane"] = None  # the copy goes its own way: not a member of the clock lanes
        m2["finals"] = {}
        self.meta[name] = m2
        self.stats["fired"]["restart:shallow_copy_fork"] += 1
        self.log.add("FORK", src, name)

    def op_RESTART(self, op, i):
        name = op["obj"]
        obj = self.objs.get(name)
        if obj is None:
            return
        try:
            if op.get("mode") == "deepcopy":
                self.objs[name] = copy.deepcopy(obj)
                self.stats["fired"]["restart:deepcopy"] += 1
            else:
                self.objs[name] = pickle.loads(pickle.dumps(obj))
                self.stats["fired"]["restart:pickle"] += 1
            self.log.add("RESTART", name, "ok")
        except Exception as e:  # noqa: BLE001
            self.log.add("RESTART", name, "raise", type(e).__name__)
            self.count("restart_not_picklable")

    def op_FIT(self, op, i):
        name = op["obj"]
        obj = self.objs.get(name)
        m = self.meta[name]
        if obj is None or m["retired"]:
            return
        if op.get("expect") == "reject" and (m["ok_fits"] > 0 or int(getattr(obj, "n_selected_", 0) or 0) != 0):
            # only a selector that has never selected anything is "never fitted"
            self.count("expect_reject_not_applicable")
            return
        if self.pid == "C08" and m.get("c08_threshold_reached") and not op.get("expect"):
            self.count("out_of_domain_after_threshold_stop")
            return
        if self.pid == "C08" and op.get("warm") and not op.get("expect") and m.get("cold_params") is not None:
            # a chain is continued with the parameters of its cold fit (only the request and
            # the - unreached - threshold move); anything else is another search (domain guard
            # for reduced traces)
            now = {k: repr(v) for k, v in m["resolved"].items() if k not in ("n_to_select", "score_threshold", "score_threshold_type", "random_state")}
            if now != m["cold_params"]:
                self.count("out_of_domain_reparameterised_mid_chain")
                m["retired"] = True
                return
        if op.get("warm") and m.get("retired_for_warm") and op.get("retry_after_crash") and m.get("crashed_warm") and os.environ.get("HOSTSIM_WARM_AFTER_CRASH") == "1":
            pass  # experiment: the continuation that crashed is retried
        elif op.get("warm") and m.get("retired_for_warm") and not op.get("expect"):
            # the state left by a failed/interrupted fit is unspecified (DESIGN 5.4); after a
            # reported length inconsistency a continuation only repeats that report
            self.count("warm_after_inconsistent_state_skipped" if m.get("retired_reason") else "warm_after_failed_fit_skipped")
            return
        info = SEL[m["cls"]]
        X = self.heap.get(op["X"])
        y = self.heap.get(op["y"]) if op.get("y") else None
        warm = bool(op.get("warm"))
        was_retired = bool(m.get("retired_for_warm"))  # the fit before this one failed / was interrupted
        if warm and not op.get("expect") and self.pid in ("C06", "C08"):
            # domain: a continuation chain is an *increasing* schedule on the same data
            try:
                have = int(obj.n_selected_)
                want = resolve_n_to_select(m["resolved"].get("n_to_select"), X.shape[info["axis"]])
                ds = m.get("data_snap")
                same = ds is None or (
                    ds[0] == self.heap.entries[op["X"]]["snap"]
                    and (ds[1] is None) == (op.get("y") is None)
                    and (ds[1] is None or ds[1] == self.heap.entries[op["y"]]["snap"])
                )
            except Exception:  # noqa: BLE001
                have, want, same = 0, 1, True
            if op.get("shrink") and same and self.pid == "C06" and 1 <= want <= have:
                pass  # a continuation that asks for fewer: may be refused; judged if it succeeds
            elif want <= have or not same:
                self.count("out_of_domain_warm_not_increasing")
                return
        if m.get("twin_from"):
            # initialised with another object's selected prefix: only comparable on the values
            # that object selected from (domain guard, also for reduced traces)
            sm = self.meta.get(m["twin_from"]) or {}
            if sm.get("data_snap") is None or sm["data_snap"][0] != self.heap.entries[op["X"]]["snap"]:
                self.count("out_of_domain_prefix_object_on_other_data")
                m["retired"] = True
                return
        if not warm and not (op.get("rejected_refit") and m.get("cold_X")):
            m["cold_X"] = op["X"]  # the array (hence the memory layout) of the latest cold fit
        if self.pid == "C08" and not op.get("expect"):
            self.c08_prepare(name, m, op)
        if op.get("rejected_refit") and m.get("cold_X"):
            # the refit that is going to be rejected is given the values in the memory layout
            # of the object's last cold fit: whatever it recomputes before the rejection
            # (PCov-FPS rebuilds its modified Gram matrix) then rounds as it did originally,
            # and the continuation is compared with the twin to the usual allowance
            X = self.heap.twin_copy_like(op["X"], m["cold_X"])
        rec = FitRecord(obj, info["axis"], tables=self.pid == "C06")
        self._cur = rec
        self.env.progress.on_step = rec.on_step
        n_before = int(getattr(obj, "n_selected_", 0) or 0) if warm else 0
        itr = (op.get("env") or {}).get("interrupt")
        try:
            with self.env.op({k: v for k, v in (op.get("env") or {}).items() if k != "interrupt"} or None) as out:
                try:
                    if itr:
                        # crash point: KeyboardInterrupt / MemoryError at the k-th skmatter line
                        # event of this fit; the partially fitted object stays in the process
                        excs = {"KeyboardInterrupt": InjectedInterrupt, "MemoryError": InjectedMemoryError}[itr["exc"]]
                        with self.env.interrupter.armed(int(itr["at"]), excs) as arm:
                            ret = obj.fit(X, y, warm_start=_warm_form(op)) if warm else obj.fit(X, y)
                        if not arm.fired:
                            self.count("interrupt_not_reached")
                    elif warm:
                        ret = obj.fit(X, y, warm_start=_warm_form(op))
                    elif op.get("via_fit_transform") and info["axis"] == 1:
                        # the scikit-learn way of fitting a feature selector; the caller then
                        # rescales the array it got back, in place (new data for the caller)
                        res = obj.fit_transform(X, y) if y is not None else obj.fit_transform(X)
                        ret = obj
                        if isinstance(res, np.ndarray) and res.dtype.kind == "f" and res.flags.writeable:
                            res *= -3.0
                            res += 1.0
                            self.count("caller_rescaled_the_fit_transform_result_in_place")
                    else:
                        ret = obj.fit(X, y)
                    rec.ret_is_self = ret is obj
                except ClockReadCap as e:
                    rec.exc = e
                except (InjectedInterrupt, InjectedMemoryError) as e:
                    rec.exc = e
                except Exception as e:  # noqa: BLE001
                    rec.exc = e
        finally:
            self._cur = None
            self.env.progress.on_step = None
        rec.warnings = out["warnings"]
        rec.clock_reads = out.get("clock_reads", 0)
        m["fits"] += 1
        bad = self.heap.check()
        hist = {
            "warm": warm,
            "ok": rec.exc is None,
            "n_before": n_before,
            "X": op["X"],
            "y": op.get("y"),
            "i": i,
            "env": op.get("env"),
            "rejected_refit": bool(op.get("rejected_refit")),
        }
        m["history"].append(hist)
        if rec.exc is not None:
            self.count("fits_raised")
            self.log.add("FIT", name, warm, "raise", type(rec.exc).__name__)
            if op.get("retry_after_crash"):
                # the retry of a crashed continuation may be refused
                self.count("retry_after_crash_refused")
            elif is_injected(rec.exc):
                # the injected fault itself: a legitimately failed operation
                self.count("fits_failed_by_injected_fault")
                self.probe("fault_landed_inside_fit")
                m["after_crash"] = True
                m["crashed_warm"] = bool(warm and m["ok_fits"] > 0)
            else:
                self.after_failed_fit(name, obj, m, op, rec)
            # state of a failed fit is unspecified: a later warm start is out of scope
            m["retired_for_warm"] = True
            if self.pid == "C01" and op.get("rejected_refit") and op.get("untouched") and not is_injected(rec.exc) and not warm and m["ok_fits"] > 0 and not was_retired:
                # a request that fit() validates before it touches anything (an impossible
                # n_to_select): the fitted selector must still be what its last fit left
                m["retired_for_warm"] = False
                self._c01_recheck(name, obj, m, "after a cold refit that was rejected for an invalid n_to_select", after_rejected_refit=True)
                m["retired_for_warm"] = True
            if op.get("rejected_refit") and not is_injected(rec.exc) and not warm and m["ok_fits"] > 0 and not was_retired:
                # ... unless the library itself REJECTED the call (an invalid parameter value,
                # no fault, no crash) and the object still reports the selections of its last
                # successful fit: by every public sign it is a fitted selector, and continuing
                # it is an ordinary warm start. (If the rejection reset it to 'nothing
                # selected', a continuation is the never-fitted case and stays out of scope.)
                try:
                    still = int(obj.n_selected_) > 0 and m.get("last_ok") is not None and int(obj.n_selected_) == int(m.get("last_n_selected", -1))
                except Exception:  # noqa: BLE001
                    still = False
                if still:
                    m["retired_for_warm"] = False
                    self.probe("cold_refit_rejected_object_still_fitted")
                else:
                    self.probe("cold_refit_rejected_object_reset")
            return
        if op.get("rejected_refit"):
            # the 'invalid' value was accepted after all: a cold fit with other parameters in
            # the middle of a chain - nothing after it belongs to the chain's domain
            m["retired"] = True
            self.count("out_of_domain_expected_rejection_was_accepted")
            return
        if op.get("retry_after_crash"):
            self.probe("retry_after_crash_succeeded")
        if m.pop("after_crash", False):
            self.probe("cold_fit_after_crashed_fit")
        m["retired_for_warm"] = False
        m["retired_reason"] = None
        self.count("fits_ok")
        if warm:
            self.count("warm_fits_ok")
        m["ok_fits"] += 1
        m["data"] = (op["X"], op.get("y"))
        m["data_snap"] = (self.heap.entries[op["X"]]["snap"], self.heap.entries[op["y"]]["snap"] if op.get("y") else None)
        try:
            ns = int(obj.n_selected_)
            idx = [int(v) for v in obj.selected_idx_]
        except Exception:  # noqa: BLE001
            ns, idx = -1, []
        self.count("selections", max(0, ns - n_before))
        self.log.add("FIT", name, warm, "ok", ns, idx)
        for attr in ("X_selected_", "hausdorff_", "pi_", "hausdorff_at_select_"):
            v = getattr(obj, attr, None)
            if isinstance(v, np.ndarray):
                self.log.add(attr, v)  # exact bytes
        for w in rec.warnings:
            self.log.add("W", w[0], w[1][:60])
        if rec.active:
            sparse = [a for a in rec.active if a[0] / max(1, a[1]) <= (a[2] if a[2] is not None else 1)]
            if any(0 < a[0] < a[1] for a in sparse):
                self.probe("voronoi_sparse_update_with_pruned_candidates")
            if any(a[0] / max(1, a[1]) > (a[2] if a[2] is not None else 1) for a in rec.active):
                self.probe("voronoi_full_update")
            if any(a[0] == 0 for a in rec.active):
                self.probe("voronoi_no_active_candidates")
        if any("Score threshold" in w[1] for w in rec.warnings):
            self.probe("threshold_stop")
            if warm:
                self.probe("threshold_stop_inside_warm_fit")
            if self.pid == "C08":
                # C08 quantifies over thresholds that are *not* reached; whether this stop is
                # itself legitimate is decided by comparing this fit with its cold twin below,
                # but nothing after it belongs to the property's domain
                m["c08_threshold_reached"] = True
        m["last_ok"] = (op, rec, n_before)
        m["ok_params"] = dict(m["resolved"])
        m["last_n_selected"] = ns
        if not warm:
            m["cold_params"] = {k: repr(v) for k, v in m["resolved"].items() if k not in ("n_to_select", "score_threshold", "score_threshold_type", "random_state")}
        if warm and any(h.get("rejected_refit") for h in m["history"][:-1]):
            self.probe("warm_start_after_rejected_cold_refit_judged")
        self.after_ok_fit(name, obj, m, op, rec, X, y, n_before)

    # ---- per-property oracles
    def after_failed_fit(self, name, obj, m, op, rec):
        cls = m["cls"]
        e = rec.exc
        if self.pid == "C06":
            if op.get("expect") == "reject":
                return
            if op.get("shrink"):
                self.count("shrinking_continuation_refused")
                return
            if isinstance(e, ClockReadCap):
                self.violate(
                    "liveness_clock",
                    cls,
                    f"fit did not finish within {self.env.clock.CAP} clock reads under clock {op.get('env', {}).get('clock')}",
                    clock=(op.get("env") or {}).get("clock", {}).get("mode"),
                )
            elif not self._c06_in_domain(m, op):
                self.count("out_of_domain_request_rejected")
            else:
                p = m["resolved"]
                ff_now = getattr(obj, "full_fraction", None)
                self.violate(
                    "fit_raises_in_domain",
                    cls,
                    f"fit raised {type(e).__name__}: {str(e)[:160]} params={_short(p)} warm={op.get('warm')} "
                    f"fit #{m['fits']} of this object, full_fraction attribute now {ff_now!r}",
                    exc=type(e).__name__,
                    n_to_select_form=_form(p.get("n_to_select")),
                    warm=bool(op.get("warm")),
                    full_fraction_form=_form(p.get("full_fraction")),
                    cold_refit_after_calibrated_zero=bool(
                        not op.get("warm") and m["fits"] > 1 and p.get("full_fraction") is None
                        and isinstance(ff_now, numbers.Real) and ff_now == 0
                    ),
                )
        elif self.pid == "C08":
            if m.get("c08_threshold_reached"):
                self.count("out_of_domain_after_threshold_stop")
                return
            if op.get("expect") == "reject":
                if isinstance(e, ValueError):
                    self.probe("warm_start_on_unfitted_rejected")
                    if m["fits"] > 1:
                        self.probe("warm_start_rejected_after_failed_first_fit")
                else:
                    self.violate("warm_unfitted_wrong_error", cls, f"{type(e).__name__}: {e}")
                return
            if op.get("warm") and m["ok_fits"] == 0:
                # warm start of a never-fitted selector: rejecting it is what C08 demands
                if isinstance(e, ValueError):
                    self.probe("warm_start_on_unfitted_rejected")
                return
            # a chain that raises where the cold twin succeeds is a violation
            tw = self.twin_fit(name, m, op)
            if tw is not None and tw.get("exc") is None:
                p = m["resolved"]
                self.violate(
                    "chain_raises_twin_succeeds",
                    cls,
                    f"{'warm' if op.get('warm') else 'cold'} fit in a history raised {type(e).__name__}: {str(e)[:160]}; "
                    f"a fresh cold fit with the same parameters succeeds. params={_short(p)}",
                    exc=type(e).__name__,
                    warm=bool(op.get("warm")),
                    n_to_select_form=_form(p.get("n_to_select")),
                )
        # C01: vacuous ("after any successful fit")

    def after_ok_fit(self, name, obj, m, op, rec, X, y, n_before):
        if op.get("expect") == "reject":
            if self.pid == "C08":
                self.violate(
                    "warm_unfitted_accepted",
                    m["cls"],
                    "warm_start=True on a never-fitted selector was accepted",
                )
            return
        if self.pid == "C01":
            self.c01_invariants(name, obj, m, op, rec, X, y, n_before)
        elif self.pid == "C06":
            self.c06_stepwise(name, obj, m, op, rec, X, y, n_before)
        elif self.pid == "C08":
            self.c08_twin(name, obj, m, op, rec, X, y, n_before)

    def _c06_in_domain(self, m, op):
        """Is the request one for which C06 promises a selection?"""
        p = m["resolved"]
        try:
            X = self.heap.pristine(op["X"])
            n = X.shape[0]
            if X.ndim != 2 or n < 2 or X.shape[1] < 2 or not np.all(np.isfinite(X)):
                return False
            nts = p.get("n_to_select")
            if nts is not None and not isinstance(nts, numbers.Real):
                return False
            if isinstance(nts, numbers.Real) and not isinstance(nts, numbers.Integral) and not 0 < nts <= 1:
                return False
            N = resolve_n_to_select(nts, n)
            if not 1 <= N <= n:
                return False
            init = p.get("initialize", 0)
            if init != "random" and not (isinstance(init, numbers.Integral) and -n <= init < n):
                return False
            ff = p.get("full_fraction")
            if ff is not None and not (isinstance(ff, numbers.Real) and 0 < ff <= 1):
                return False
            nt = p.get("n_trial_calculation", 4)
            if not (isinstance(nt, numbers.Integral) and nt >= 1):
                return False
            if op.get("y"):
                y = self.heap.pristine(op["y"])
                if len(y) != n:
                    return False
            return True
        except Exception:  # noqa: BLE001
            return False

    # ------------------------------------------------------------------ C01
    def c01_invariants(self, name, obj, m, op, rec, X, y, n_before):
        cls = m["cls"]
        info = SEL[cls]
        axis = info["axis"]
        p = m["resolved"]
        Xp = self.heap.pristine(op["X"])
        yp = self.heap.pristine(op["y"]) if op.get("y") else None
        n_from = Xp.shape[axis]
        N = resolve_n_to_select(p.get("n_to_select"), n_from)
        V = lambda clause, detail, **f: self.violate(clause, cls, detail + f" | params={_short(p)} warm={op.get('warm')}", **f)  # noqa: E731
        try:
            ns = int(obj.n_selected_)
            idx = np.asarray(obj.selected_idx_)
        except Exception as e:  # noqa: BLE001
            V("public_state_missing", f"{type(e).__name__}: {e}")
            return
        stopped = any("Score threshold" in w[1] for w in rec.warnings)
        started_with = rec.steps[0][0] if rec.steps else n_before
        if idx.ndim != 1 or len(idx) != ns:
            V(
                "len_idx_ne_n_selected",
                f"len(selected_idx_)={len(idx)} but n_selected_={ns} (threshold stop={stopped}, "
                f"selections present when the greedy loop started={started_with})",
                stopped=bool(stopped),
                deficit_equals_initial=bool(ns - len(idx) == started_with),
            )
            # the public state is now inconsistent (selected_idx_ shorter than n_selected_):
            # continuing from it would only report consequences of the same defect again
            m["retired_for_warm"] = True
            m["retired_reason"] = "len_idx_ne_n_selected"
        if ns != N:
            if not (ns < N and stopped and p.get("score_threshold") is not None):
                V("size_ne_requested", f"n_selected_={ns}, n_to_select implies {N}, threshold stop={stopped}")
        # threshold semantics (only when the search was stopped by it)
        thr = p.get("score_threshold")
        if not op.get("warm"):
            m["first_score"] = None  # the reference score is latched anew by a cold fit
        # the full sequence of kept selections, from the last step boundary (the public
        # selected_idx_ may have been cut by the stop itself)
        full_sel = [int(v) for v in (rec.steps[-1][1] if rec.steps else idx)]

        def step_score(ns_at, sc):
            """(score of the selection made at this step, best candidate score)."""
            cand = np.array(sc, dtype=float, copy=True)
            taken = [j for j in full_sel[:ns_at] if 0 <= j < len(cand)]
            cand[taken] = -np.inf
            best = float(np.max(cand)) if cand.size else float("nan")
            made = float(sc[full_sel[ns_at]]) if ns_at < len(full_sel) else None
            return made, best

        if thr is not None and rec.scores and m["first_score"] is None:
            made, best = step_score(*rec.scores[0])
            m["first_score"] = made if made is not None else best
        if stopped and thr is not None and rec.scores:
            ttype = p.get("score_threshold_type", "absolute")
            ref = m["first_score"] if ttype == "relative" else 1.0
            if ref is not None and np.isfinite(ref) and ref > 0:
                kept = []
                for ns_at, sc in rec.scores[:-1]:
                    made, _ = step_score(ns_at, sc)
                    if made is not None:
                        kept.append(made / ref)
                _, last_best = step_score(*rec.scores[-1])
                # every selection kept by the loop had a score at or above the threshold,
                # and at the step that stopped the search no candidate reached it
                if any(v < thr for v in kept):
                    V("kept_selection_below_threshold", f"scores of kept selections {kept} vs threshold {thr} ({ttype})")
                if not (last_best / ref < thr):
                    V("stopped_without_reaching_threshold", f"best candidate score {last_best / ref} is not below threshold {thr} ({ttype})")
        elif stopped and thr is None:
            V("stopped_without_threshold", "threshold warning although no threshold is set")
        sel = [int(v) for v in idx]
        if len(set(sel)) != len(sel):
            ref_exh = None
            V(
                "duplicate_indices",
                f"selected_idx_={sel}",
                data_kind=self.trace["heap"][op["X"]].get("kind", "explicit"),
                fam=info["fam"],
                warm=bool(op.get("warm")),
                recompute_every=p.get("recompute_every"),
            )
        if any((v < 0 or v >= n_from) for v in sel):
            V("index_out_of_range", f"selected_idx_={sel}, n={n_from}")
            return
        # stored data
        cut = len(idx) != ns  # already reported above; compare the common prefix only
        try:
            Xs = np.asarray(obj.X_selected_)
            exp = np.take(Xp, sel, axis=axis)
            if cut and Xs.ndim == 2 and Xs.shape[axis] == ns:
                Xs = np.take(Xs, np.arange(min(ns, len(sel))), axis=axis)
                exp = np.take(exp, np.arange(min(ns, len(sel))), axis=axis)
            if Xs.shape != exp.shape or not np.array_equal(Xs, exp):
                V(
                    "X_selected_mismatch",
                    f"X_selected_ shape {Xs.shape} vs input sliced at selected_idx_ {exp.shape}"
                    + ("" if Xs.shape != exp.shape else f", max diff {np.max(np.abs(Xs - exp))}"),
                    shape_only=bool(Xs.shape != exp.shape),
                    stopped=bool(stopped),
                )
        except Exception as e:  # noqa: BLE001
            V("X_selected_unreadable", f"{type(e).__name__}: {e}")
        if axis == 0 and yp is not None:
            ys = getattr(obj, "y_selected_", None)
            if ys is None:
                V("y_selected_missing", "sample selector fitted with y has no y_selected_")
            else:
                ys = np.asarray(ys)
                expy = yp.reshape(len(yp), -1)[sel]
                if cut and ys.ndim == 2 and len(ys) == ns:
                    ys, expy = ys[: min(ns, len(sel))], expy[: min(ns, len(sel))]
                if ys.shape != expy.shape or not np.array_equal(ys, expy):
                    V(
                        "y_selected_mismatch",
                        f"y_selected_ shape {ys.shape} vs y sliced {expy.shape}",
                        shape_only=bool(ys.shape != expy.shape),
                        stopped=bool(stopped),
                    )
        # support mask and derived views
        try:
            sup = np.asarray(obj.support_)
            expm = np.zeros(n_from, dtype=bool)
            expm[sel] = True
            if sup.dtype != bool or sup.shape != expm.shape or not np.array_equal(sup, expm):
                V("support_mismatch", f"support_ marks {np.flatnonzero(sup).tolist()} vs {sorted(set(sel))}")
            gs = np.asarray(obj.get_support())
            if not np.array_equal(gs, expm):
                V("get_support_mismatch", "get_support() differs from the mask of selected_idx_")
            gi = [int(v) for v in obj.get_support(indices=True)]
            if gi != sorted(sel):
                V("get_support_indices_mismatch", f"{gi} vs sorted {sorted(sel)}", stopped=bool(stopped))
            go = [int(v) for v in obj.get_support(indices=True, ordered=True)]
            if go != sel:
                V("get_support_ordered_mismatch", f"{go} vs {sel}")
        except Exception as e:  # noqa: BLE001
            V("support_unreadable", f"{type(e).__name__}: {e}")
        if axis == 1:
            try:
                T = np.asarray(obj.transform(self.heap.get(op["X"])))
                expT = Xp[:, expm]
                if T.shape != expT.shape or not np.array_equal(T, expT):
                    V("transform_mismatch", f"transform(X) shape {T.shape} vs masked columns {expT.shape}")
                # other data with the same columns (another row count, Fortran order)
                rs = np.random.RandomState(len(sel) * 7919 + n_from)
                Xn = np.asfortranarray(rs.standard_normal((3 + len(sel) % 4, n_from)))
                Tn = np.asarray(obj.transform(Xn))
                if Tn.shape != Xn[:, expm].shape or not np.array_equal(Tn, Xn[:, expm]):
                    V("transform_mismatch", f"transform(other X) shape {Tn.shape} vs masked columns {Xn[:, expm].shape}", other_data=True)
            except Exception as e:  # noqa: BLE001
                V("transform_raises", f"{type(e).__name__}: {e}")
        if rec.ret_is_self is False:
            pass  # C09's clause, not C01's

    # ------------------------------------------------------------------ C06
    def c06_stepwise(self, name, obj, m, op, rec, X, y, n_before):
        cls = m["cls"]
        p = m["resolved"]
        Xp = self.heap.pristine(op["X"])
        V = lambda clause, detail, **f: self.violate(  # noqa: E731
            clause, cls, detail + f" | params={_short(p)} warm={op.get('warm')} clock={(op.get('env') or {}).get('clock')}", **f
        )
        if not op.get("warm") or m["ref"] is None:
            m["ref"] = FPSReference(Xp)
            m["seldist"] = []
        if op.get("shrink") and op.get("warm"):
            # the continuation was accepted with a smaller request: what is left must be the
            # first picks of the earlier selection, with the distance table that belongs to them
            self.probe("shrinking_continuation_accepted")
            try:
                ns = int(obj.n_selected_)
                kept = [int(v) % Xp.shape[0] for v in obj.selected_idx_[:ns]]
                tab = np.array(obj.get_distance(), dtype=float)
            except Exception as e:  # noqa: BLE001
                V("public_state_missing", f"{type(e).__name__}: {e}")
                return
            N = resolve_n_to_select(p.get("n_to_select"), Xp.shape[0])
            old = list(m["ref"].selected)
            if ns != N:
                V("size_ne_requested", f"n_selected_={ns} but n_to_select implies {N} (continuation with a smaller request)")
                return
            if kept != old[:ns]:
                V("prefix_changed", f"after a continuation with a smaller request the selection is {kept}, earlier picks were {old}")
                return
            ref2 = FPSReference(Xp)
            for j in kept:
                ref2.add(j)
            m["ref"] = ref2
            m["seldist"] = m["seldist"][:ns]
            d = np.abs(tab - ref2.mind) if tab.shape == ref2.mind.shape else np.array([np.inf])
            d[~np.isfinite(d)] = np.inf
            if float(np.max(d)) > ref2.tau:
                w = int(np.argmax(d))
                V("distance_table_wrong", f"after a continuation with a smaller request ({ns} kept) table entry {w} is {tab[w] if tab.shape == ref2.mind.shape else tab.shape}, true minimum distance {ref2.mind[w]:.6g}")
            return
        ref = m["ref"]
        steps = list(rec.steps)
        try:
            ns = int(obj.n_selected_)
            final_idx = np.array(obj.selected_idx_[:ns], dtype=int)
            final_tab = np.array(obj.get_distance(), dtype=float)
        except Exception as e:  # noqa: BLE001
            V("public_state_missing", f"{type(e).__name__}: {e}")
            return
        stopped = any("Score threshold" in w[1] for w in rec.warnings)
        if stopped:
            # the state left by a threshold stop has a known length inconsistency (C01's
            # finding); judge the steps the monitors saw and end this object's history
            self.count("threshold_stop_in_c06")
            m["retired_for_warm"] = True
            m["retired_reason"] = "threshold_stop"
        else:
            steps.append((ns, final_idx, final_tab))
        n_from = Xp.shape[0]
        N = resolve_n_to_select(p.get("n_to_select"), n_from)
        if ns != N and not stopped:
            V("size_ne_requested", f"n_selected_={ns} but n_to_select implies {N}")
        tau = ref.tau
        for ns_k, idx_k, tab_k in steps:
            have = len(ref.selected)
            if ns_k < have or [int(v) % n_from for v in idx_k[:have]] != ref.selected:
                V("prefix_changed", f"earlier selections changed: {ref.selected} -> {idx_k.tolist()}")
                return
            for j in idx_k[have:]:
                j = int(j)
                first = not ref.selected
                if first and -n_from <= j < 0 and isinstance(p.get("initialize", 0), numbers.Integral) and p.get("initialize", 0) == j:
                    # a negative initial index is accepted and means "counted from the end"
                    self.count("negative_initial_index")
                    j = j + n_from
                    neg_first = True
                else:
                    neg_first = False
                if not (0 <= j < n_from):
                    V("index_out_of_range", f"{j}")
                    return
                if first:
                    init = p.get("initialize", 0)
                    if isinstance(init, numbers.Integral) and not isinstance(init, bool) and j != (init + n_from if neg_first else init):
                        V("initial_point", f"first selection {j} is not the requested initial index {init}")
                    if isinstance(init, str) and init == "random" and not op.get("warm"):
                        # the random initial point is the draw plain FPS makes: one
                        # randint(n_samples) from the generator that random_state denotes (a fresh
                        # RandomState for an integer, the caller's instance, or the ambient
                        # generator whose state the simulator set at the start of this fit)
                        exp = self._expected_random_start(m, op, n_from)
                        if exp is not None and j != exp:
                            V("random_initial_point_not_the_generators_draw",
                              f"initialize='random': first selection {j}, but the generator denoted by random_state="
                              f"{m['params'].get('random_state', 0)!r} draws {exp} for {n_from} samples (fit #{m['fits']} of this object)")
                        elif exp is not None:
                            self.count("random_initial_point_is_the_generators_draw")
                if j in ref.selected:
                    # plain FPS never selects a sample twice (its already selected items are
                    # excluded from the arg-max) - also when every remaining distance is zero
                    V("reselected_sample", f"step {len(ref.selected)}: sample {j} is selected a second time (prefix {ref.selected}); plain FPS cannot produce this selection",
                      all_remaining_zero=bool(ref.exhausted()))
                    return
                ok, short = ref.check_choice(j)
                if ref.is_tie() and not first:
                    self.count("tie_steps")
                if not ok:
                    V(
                        "not_farthest",
                        f"step {len(ref.selected)}: chose {j} with true min-distance {ref.mind[j]:.6g}, "
                        f"best candidate has {ref.mind.max():.6g} (tau {tau:.3g}); prefix {ref.selected}",
                    )
                    return
                m["seldist"].append(np.inf if first else ref.select_distance_of(j))
                ref.add(j)
                self.count("steps_checked")
            if tab_k is not None and len(ref.selected) == ns_k:
                if tab_k.shape != ref.mind.shape:
                    V("table_shape", f"{tab_k.shape}")
                    return
                diff = np.abs(tab_k - ref.mind)
                diff[~np.isfinite(diff)] = np.inf
                w = int(np.argmax(diff))
                if diff[w] > tau:
                    V(
                        "distance_table_wrong",
                        f"after {ns_k} selections the table entry {w} is {tab_k[w]:.6g}, true minimum distance "
                        f"{ref.mind[w]:.6g} (tau {tau:.3g}); prefix {ref.selected}",
                    )
                    return
                self.count("tables_checked")
        # per-selection distances are observed but not part of C06's statement (they are
        # C02's for FPS/PCov-FPS); counted only, never a violation here.
        try:
            sd = np.asarray(obj.get_select_distance(), dtype=float)
            exp = np.array(m["seldist"], dtype=float)
            fin = np.isfinite(exp)
            if sd.shape == exp.shape and np.array_equal(np.isfinite(sd), fin) and not np.any(np.abs(sd[fin] - exp[fin]) > tau):
                self.count("select_distances_agree")
            else:
                self.count("select_distances_differ_observed")
        except Exception:  # noqa: BLE001
            self.count("select_distances_unreadable_observed")
        ff = getattr(obj, "full_fraction", None)
        if p.get("full_fraction") is None and not op.get("warm") and isinstance(ff, numbers.Real):
            self.count(f"calibration_outcome_{int(round(float(ff) * 128)):03d}")
            self.count("calibrations")
        if not stopped:
            m["final"] = [int(v) % n_from for v in final_idx]
            m.setdefault("finals", {})[m["fits"]] = (m["final"], op["X"], len(m.get("opsig", [])))

    def _expected_random_start(self, m, op, n_from):
        raw = m["params"].get("random_state", 0)
        try:
            if raw is None:
                seed = ((op.get("env") or {}).get("rng") or {"seed": 12345}).get("seed", 12345)
                return int(np.random.RandomState(seed & 0x7FFFFFFF).randint(n_from))
            if isinstance(raw, dict) and "$npint" in raw:
                raw = int(raw["$npint"])
            if isinstance(raw, numbers.Integral) and not isinstance(raw, bool):
                return int(np.random.RandomState(int(raw)).randint(n_from))
            if isinstance(raw, dict) and "$rs" in raw:
                # the caller's generator instance advances with every cold fit; the shadow is
                # only trusted while every fit of this object (and of no copy of it) succeeded
                if m.get("shadow_rs_unknown") or m["ok_fits"] != m["fits"]:
                    m["shadow_rs_unknown"] = True
                    return None
                if m.get("shadow_rs") is None:
                    m["shadow_rs"] = np.random.RandomState(int(raw["$rs"]))
                return int(m["shadow_rs"].randint(n_from))
        except Exception:  # noqa: BLE001
            return None
        return None

    def c06_lanes(self):
        """Clock independence: lanes are identical objects/histories under different
        clocks; after every fit of the history their sequences must agree up to the
        first reference tie."""
        groups = {}
        for name, m in self.meta.items():
            if m.get("lane") is not None and m.get("finals"):
                groups.setdefault(m["lane"], []).append((name, m))
        for lane, members in groups.items():
            base_name, base = members[0]
            for name, m in members[1:]:
                for fit_no in sorted(set(base["finals"]) & set(m["finals"])):
                    (a, xa, na), (b, xb, nb) = base["finals"][fit_no], m["finals"][fit_no]
                    if xa != xb:
                        continue
                    if na != nb or base.get("opsig", [])[:na] != m.get("opsig", [])[:nb]:
                        # not the same history (an operation failed or was skipped in one lane
                        # only - e.g. the known zero-calibration refit -, or a reduced trace)
                        self.count("lane_pairs_with_different_histories_skipped")
                        continue
                    self.count("lane_pairs")
                    if a == b:
                        self.count("lane_pairs_identical")
                        continue
                    k = next((i for i in range(min(len(a), len(b))) if a[i] != b[i]), min(len(a), len(b)))
                    ref = FPSReference(self.heap.pristine(xa))
                    for j in a[:k]:
                        ref.add(j)
                    # the first selection is the requested index or the reproducible draw of
                    # an integer random_state: it can never legitimately depend on the clock
                    if 0 < k < min(len(a), len(b)) and ref.is_tie():
                        self.count("lane_pairs_differ_at_tie")
                        continue
                    self.violate(
                        "clock_dependent_selection",
                        m["cls"],
                        f"identical histories under different clocks / ambient RNG states selected {a} vs {b} in fit #{fit_no}; "
                        f"first difference at step {k} is not a tie | params={_short(m['resolved'])}",
                        first_step=bool(k == 0),
                    )
                    break

    # ------------------------------------------------------------------ C08
    def quiet_twin(self, cls, params, Xn, yn, record_scores=True, layout_of=None):
        """Cold fit of a fresh estimator in a quiet environment on fresh copies that have
        the memory layout of the array the history's own cold fit was given (`layout_of`),
        so that both sides perform the same arithmetic."""
        out = self._in_child(lambda: self._quiet_twin_here(cls, params, Xn, yn, layout_of))
        self.count("twin_fits")
        return out

    def _in_child(self, fn):
        """Run fn() in a forked copy of this process and return its (pickled) result: the
        history-free reference fit must not leave traces in the process that hosts the history
        (module-level caches, pools, hidden solver state), or the harness itself would evict
        or refresh exactly the shared state a history depends on. Falls back to running in
        place if the result cannot be transferred."""
        import pickle as _pk

        if os.environ.get("HOSTSIM_TWIN_IN_PROCESS") == "1" or not self.trace.get("fork_twins"):
            return fn()
        self.probe("reference_fits_isolated_in_a_forked_child")
        r, w = os.pipe()
        pid = os.fork()
        if pid == 0:
            code = 0
            try:
                os.close(r)
                try:
                    data = _pk.dumps(("ok", fn()), protocol=4)
                except BaseException as e:  # noqa: BLE001
                    data = _pk.dumps(("fail", f"{type(e).__name__}: {e}"), protocol=4)
                    code = 3
                with os.fdopen(w, "wb") as f:
                    f.write(data)
            finally:
                os._exit(code)
        os.close(w)
        with os.fdopen(r, "rb") as f:
            data = f.read()
        os.waitpid(pid, 0)
        try:
            status, res = _pk.loads(data)
        except Exception:  # noqa: BLE001
            status, res = "fail", "unreadable"
        if status != "ok":
            self.count("twin_in_child_failed_ran_in_place")
            return fn()
        return res

    def _quiet_twin_here(self, cls, params, Xn, yn, layout_of):
        Xc = self.heap.twin_copy_like(Xn, layout_of)
        yc = self.heap.twin_copy(yn) if yn else None
        out = {"exc": None}
        try:
            tw = get_class(cls)(**params)
        except Exception as e:  # noqa: BLE001
            out["exc"] = e
            return out
        rec = FitRecord(tw, SEL[cls]["axis"])
        prev = self._cur
        self._cur = rec
        prev_cb = self.env.progress.on_step
        self.env.progress.on_step = rec.on_step
        st_fired = dict(self.stats["fired"])
        try:
            with self.env.op(None):
                try:
                    tw.fit(Xc, yc)
                except Exception as e:  # noqa: BLE001
                    out["exc"] = e
        finally:
            self._cur = prev
            self.env.progress.on_step = prev_cb
        out["obj"] = tw
        out["rec"] = rec
        return out

    def twin_params(self, m):
        src = self.meta[m["twin_from"]] if m.get("twin_from") else m
        p = dict(src["resolved"])
        for k, v in src["params"].items():
            if isinstance(v, dict) and "$rs" in v:
                p[k] = np.random.RandomState(int(v["$rs"]))  # the twin gets a fresh, equal generator
        if src is not m:
            for k in ("n_to_select", "score_threshold", "score_threshold_type"):
                if k in m["resolved"]:
                    p[k] = m["resolved"][k]
                else:
                    p.pop(k, None)
        return src["cls"], p

    def twin_fit(self, name, m, op):
        cls, p = self.twin_params(m)
        return self.quiet_twin(cls, p, op["X"], op.get("y"), layout_of=m.get("cold_X"))

    def c08_prepare(self, name, m, op):
        """Before an object's first fit: the cold fit with the final count, in a quiet
        environment. Gives the score range (for provably unreached thresholds) and the
        reference for the prefix clause."""
        if m.get("final") is None:
            return
        # (recomputed when the caller has refilled the arrays since: the reference run must
        # see the values the object's fits see)
        try:
            key = (op["X"], self.heap.entries[op["X"]]["snap"], self.heap.entries[op["y"]]["snap"] if op.get("y") else None,
                   repr(sorted((k, repr(v)) for k, v in m["resolved"].items() if k not in ("n_to_select", "score_threshold", "score_threshold_type"))))
        except KeyError:
            key = None
        if m.get("final_done") and m.get("final_key") == key:
            return
        m["final_done"] = True
        m["final_key"] = key
        m.pop("twin_final", None)
        m.pop("twin_final_scores", None)
        cls, p = self.twin_params(m)
        p["n_to_select"] = int(m["final"])
        p.pop("score_threshold", None)
        p.pop("score_threshold_type", None)
        # (every reference fit of an object has the memory layout of the object's own cold fit)
        tw = self.quiet_twin(cls, p, op["X"], op.get("y"), layout_of=m.get("cold_X"))
        if tw["exc"] is not None:
            return
        t, trec = tw["obj"], tw["rec"]
        try:
            b = [int(v) for v in t.selected_idx_[: int(t.n_selected_)]]
        except Exception:  # noqa: BLE001
            return
        m["twin_final"] = b
        m["twin_final_scores"] = {ns_at: sc for ns_at, sc in trec.scores}
        chosen = [float(sc[b[ns_at]]) for ns_at, sc in trec.scores if ns_at < len(b)]
        if chosen:
            m["twin_score_min"], m["twin_score_max"] = min(chosen), max(chosen)
            m["twin_score_first"] = chosen[0]
            m["twin_chosen"] = [(int(ns_at), float(sc[b[ns_at]])) for ns_at, sc in trec.scores if ns_at < len(b)]

    @staticmethod
    def _epsr(Xp):
        """Working precision of the caller's data relative to double precision (1 for
        float64 and integer input, ~5e8 for float32: the library keeps float32)."""
        return float(np.finfo(Xp.dtype).eps / EPS) if Xp.dtype.kind == "f" else 1.0

    def _tau_for(self, cls, Xp, yp, p):
        info = SEL[cls]
        fam = info["fam"]
        axis = info["axis"]
        epsr = self._epsr(Xp)
        Xp = np.asarray(Xp, dtype=float)
        if fam in ("fps", "voronoi"):
            P = Xp if axis == 0 else Xp.T
            return fps_tau(P) * epsr
        if fam == "pcovfps":
            Y = np.asarray(yp, dtype=float).reshape(len(yp), -1)
            mix = p.get("mixing", 0.5)
            M = ref_pcovr_kernel(mix, Xp, Y) if axis == 0 else ref_pcovr_covariance(mix, Xp, Y)
            return 64.0 * EPS * 2.0 * float(np.max(np.abs(np.diag(M)))) * max(Xp.shape) * epsr
        return 1e-9 * epsr

    def c08_twin(self, name, obj, m, op, rec, X, y, n_before):
        cls = m["cls"]
        info = SEL[cls]
        fam = info["fam"]
        axis = info["axis"]
        p = m["resolved"]
        Xp = self.heap.pristine(op["X"])
        yp = self.heap.pristine(op["y"]) if op.get("y") else None
        V = lambda clause, detail, **f: self.violate(  # noqa: E731
            clause, cls, detail + f" | params={_short(p)} history={_hist(m)}", **f
        )
        if fam in ("cur", "pcovcur"):
            # domain of C08: rank above the number of selections (DESIGN 4, iii)
            sv = np.linalg.svd(np.asarray(Xp, dtype=float), compute_uv=False)
            rank = int(np.sum(sv > sv[0] * max(Xp.shape) * EPS * self._epsr(Xp) * 16)) if sv.size and sv[0] > 0 else 0
            need = int(getattr(obj, "n_selected_", 0)) + int(p.get("k", 1)) + 1
            if rank < need or p.get("recompute_every", 1) not in (0, 1):
                self.count("out_of_domain_rank_or_refresh")
                return
            # (iii) the scores of the very first step must be well defined as well: the
            # k-th and (k+1)-th value of the initial matrix must not coincide
            if self._degenerate_initial(Xp, yp, p, fam, axis):
                self.count("degenerate_spectrum_skipped")
                return
        tw = self.twin_fit(name, m, op)
        if tw["exc"] is not None:
            self.count("twin_raised")
            return
        t = tw["obj"]
        trec = tw["rec"]
        tau = self._tau_for(cls, Xp, yp, p)
        arp_fault = bool((op.get("env") or {}).get("arpack")) or any(
            (h.get("env") or {}).get("arpack") for h in m["history"]
        )
        try:
            a = [int(v) for v in obj.selected_idx_[: int(obj.n_selected_)]]
            b = [int(v) for v in t.selected_idx_[: int(t.n_selected_)]]
        except Exception as e:  # noqa: BLE001
            V("public_state_missing", f"{type(e).__name__}: {e}")
            return
        # per-step score tables of the twin, keyed by the number of selections present
        tw_scores = {ns_at: sc for ns_at, sc in trec.scores}
        warm_hist = any(h["warm"] and h["ok"] for h in m["history"])
        if warm_hist:
            self.probe("compared_after_warm_start")
        if len(a) != len(b):
            thr = p.get("score_threshold")
            if thr is not None and m.get("twin_score_min") is not None:
                # an 'unreached' threshold is only provably unreached if the smallest score of
                # the search exceeds it by more than the rounding allowance of the scores
                # (single-precision data far from the origin: tau can exceed every score)
                first = m.get("twin_score_first") or 1.0
                thr_abs = float(thr) * (float(first) if p.get("score_threshold_type") == "relative" else 1.0)
                if float(m["twin_score_min"]) - thr_abs <= tau:
                    self.count("threshold_within_rounding_of_the_scores_skipped")
                    m["c08_threshold_reached"] = True
                    return
            V("length_differs", f"history gives {len(a)} selections {a}, cold fit {len(b)} {b}",
              recompute_every=p.get("recompute_every"))
            return
        if a != b:
            k = next(i for i in range(len(a)) if a[i] != b[i])
            sc = tw_scores.get(k)
            tie = False
            if sc is not None and 0 <= a[k] < len(sc):
                tie = abs(float(sc[a[k]]) - float(sc[b[k]])) <= tau
                if fam in ("cur", "pcovcur") and not tie:
                    tie = self._degenerate(t, p, fam, axis, Xp, yp)
            if tie:
                self.count("diverged_at_tie")
                return
            V(
                "sequence_differs",
                f"history selects {a}, a single cold fit selects {b}; first difference at step {k} "
                f"(cold-fit scores there: {None if sc is None else (float(sc[a[k]]), float(sc[b[k]]))}, tau {tau:.3g})",
                recompute_every=p.get("recompute_every"),
                fam=fam,
                duplicate_in_history=bool(len(set(a)) != len(a)),
            )
            return
        self.count("sequences_equal")
        # stored data
        for attr in ("X_selected_", "y_selected_"):
            va, vb = getattr(obj, attr, None), getattr(t, attr, None)
            if (va is None) != (vb is None):
                V("stored_data_presence", f"{attr} exists on one side only")
                continue
            if va is None:
                continue
            va, vb = np.asarray(va), np.asarray(vb)
            if va.shape != vb.shape or not np.array_equal(va, vb):
                V("stored_data_differs", f"{attr}: shapes {va.shape} vs {vb.shape}")
        # scores and distance tables
        scale = 1.0
        if fam in FPS_LIKE:
            # the raw score table first (reads such as get_distance must not have changed it)
            try:
                sa = np.asarray(obj.score(self.heap.get(op["X"]), y), dtype=float)
                sb = np.asarray(t.score(Xp, yp), dtype=float)
                fa, fb = np.isfinite(sa), np.isfinite(sb)
                if sa.shape != sb.shape or not np.array_equal(fa, fb) or np.any(np.abs(sa[fa] - sb[fb]) > tau):
                    V("distance_table_differs", f"score(): max diff {np.max(np.abs(sa[fa & fb] - sb[fa & fb])) if sa.shape == sb.shape and np.any(fa & fb) else 'shape/inf-pattern'} (tau {tau:.3g})", via="score")
            except Exception as e:  # noqa: BLE001
                V("distance_unreadable", f"score: {type(e).__name__}: {e}")
            for meth in ("get_distance", "get_select_distance"):
                try:
                    da = np.asarray(getattr(obj, meth)(), dtype=float)
                    db = np.asarray(getattr(t, meth)(), dtype=float)
                except Exception as e:  # noqa: BLE001
                    V("distance_unreadable", f"{meth}: {type(e).__name__}: {e}")
                    continue
                if da.shape != db.shape:
                    V("distance_shape_differs", f"{meth}: {da.shape} vs {db.shape}")
                    continue
                fa, fb = np.isfinite(da), np.isfinite(db)
                if not np.array_equal(fa, fb) or np.any(np.abs(da[fa] - db[fb]) > tau):
                    V("distance_table_differs", f"{meth}: max diff {np.max(np.abs(da[fa & fb] - db[fa & fb])) if np.any(fa & fb) else 'inf-pattern'} (tau {tau:.3g})")
        else:
            try:
                pa = np.asarray(obj.score(X, y), dtype=float)
                pb = np.asarray(t.score(Xp, yp), dtype=float)
            except Exception as e:  # noqa: BLE001
                V("score_unreadable", f"{type(e).__name__}: {e}")
                return
            if self._degenerate(t, p, fam, axis, Xp, yp):
                self.count("degenerate_spectrum_skipped")
                return
            atol = 1e-7 if not arp_fault else 1e-5
            if self._epsr(Xp) > 1.0:
                # single precision input: the library works in float32 (eps 1.2e-7); scores
                # of a non-degenerate spectrum (relative gap > 1e-3, see _degenerate) are
                # reproducible to ~eps/gap
                atol = 5e-3
                self.probe("single_precision_scores_compared")
            if pa.shape != pb.shape or np.any(np.abs(pa - pb) > atol):
                w = int(np.argmax(np.abs(pa - pb))) if pa.shape == pb.shape else -1
                V(
                    "scores_differ",
                    f"importance scores after the history differ from the cold fit's at entry {w}: "
                    f"{pa[w] if w >= 0 else pa.shape} vs {pb[w] if w >= 0 else pb.shape} (atol {atol})",
                    recompute_every=p.get("recompute_every"),
                    at_selected=bool(w in a) if w >= 0 else None,
                    fam=fam,
                )
        # prefix clause: the first k selections do not depend on how many more are requested
        fin = m.get("twin_final")
        if fin is not None and len(fin) >= len(b) and fin[: len(b)] != b:
            k = next(i for i in range(len(b)) if fin[i] != b[i])
            scf = m.get("twin_final_scores", {}).get(k)
            tie = scf is not None and abs(float(scf[fin[k]]) - float(scf[b[k]])) <= tau
            if not tie and fam in ("cur", "pcovcur"):
                tie = self._degenerate(t, p, fam, axis, Xp, yp)
            if tie:
                self.count("prefix_diverged_at_tie")
            else:
                V("prefix_depends_on_request", f"cold fit with {len(b)} selects {b}, cold fit with {len(fin)} selects {fin}")
        elif fin is not None:
            self.count("prefix_checked")

    def _degenerate_initial(self, Xp, yp, p, fam, axis):
        try:
            k = int(p.get("k", 1))
            lim = 1e-3 if self._epsr(Xp) > 1.0 else 1e-6
            Xp = np.asarray(Xp, dtype=float)
            if fam == "cur":
                gap, _ = spectrum_gap(Xp, k, symmetric=False)
            else:
                Y = np.asarray(yp, dtype=float).reshape(Xp.shape[0], -1)
                mix = p.get("mixing", 0.5)
                M = ref_pcovr_kernel(mix, Xp, Y) if axis == 0 else ref_pcovr_covariance(mix, Xp, Y)
                gap, _ = spectrum_gap(M, k, symmetric=True)
            return gap < lim
        except Exception:  # noqa: BLE001
            # not judged; counted so that the evidence shows how often the guard gave up for a
            # reason other than the spectrum (should stay 0 on a tree that keeps its state)
            self.count("degenerate_guard_gave_up")
            return True

    def _degenerate(self, t, p, fam, axis, Xp=None, yp=None):
        """CUR-family scores are arbitrary when the k-th and (k+1)-th value coincide.

        The spectrum is that of the twin's working matrix.  A one-shot search
        (recompute_every=0) never orthogonalises, so its working matrix IS the data: if the
        twin keeps no working copy in that mode the data is used instead of giving up (an
        exception below means 'not judged', and a library that merely stopped storing the
        private copy must not switch the comparison off - seeded change C08_35)."""
        try:
            k = int(p.get("k", 1))
            Xc = getattr(t, "X_current_", None)
            yc = getattr(t, "y_current_", None)
            if Xc is None and Xp is not None and p.get("recompute_every", 1) == 0:
                self.count("degenerate_guard_on_the_data_itself")
                Xc, yc = Xp, yp
            lim = 1e-3 if self._epsr(np.asarray(Xc)) > 1.0 else 1e-6
            Xc = np.asarray(Xc, dtype=float)
            if fam == "cur":
                gap, top = spectrum_gap(Xc, k, symmetric=False)
            else:
                Y = np.asarray(yc, dtype=float).reshape(Xc.shape[0], -1)
                mix = p.get("mixing", 0.5)
                M = ref_pcovr_kernel(mix, Xc, Y) if axis == 0 else ref_pcovr_covariance(mix, Xc, Y)
                gap, top = spectrum_gap(M, k, symmetric=True)
            return gap < lim
        except Exception:  # noqa: BLE001
            # not judged; counted so that the evidence shows how often the guard gave up for a
            # reason other than the spectrum (should stay 0 on a tree that keeps its state)
            self.count("degenerate_guard_gave_up")
            return True


def _warm_form(op):
    """warm_start=True in the forms callers use: the literal, a numpy boolean (the result
    of a comparison on numpy data) or a truthy integer."""
    f = op.get("warm_form")
    if f == "np_bool":
        return np.bool_(True)
    if f == "int":
        return 1
    return True


def _form(v):
    if v is None:
        return "None"
    if isinstance(v, bool):
        return "bool"
    if isinstance(v, numbers.Integral):
        return "int"
    if isinstance(v, numbers.Real):
        return "float"
    if isinstance(v, (list, tuple)):
        return "list"
    return type(v).__name__


def _short(p):
    return {k: v for k, v in p.items() if k not in ("progress_bar",)}


def _hist(m):
    return [("warm" if h["warm"] else "cold") + ("" if h["ok"] else "!") for h in m["history"]]
