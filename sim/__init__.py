"""hostsim: a deterministic, fault-injecting host-process simulator for scikit-matter.

One simulated process hosts the real skmatter code (imported from /repo/src). Every
source of nondeterminism a listed property can depend on is owned by the simulator
(see DESIGN.md section 1): wall clock, joblib task schedule, ambient RNG, ARPACK start
vectors, stderr, interruption at a line, caller-side storage, and the history of
operations on estimator objects.
"""
