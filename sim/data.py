"""Caller-side storage: array recipes, exact values, storage kinds, guarded heap."""

import os
import tempfile

import numpy as np

from .util import arr_to_hex, hex_to_arr

KINDS = [
    "gauss",  # well conditioned
    "uniform",
    "clusters",  # tight far-apart clusters (Voronoi pruning active)
    "lattice",  # small integers: exact ties
    "dups",  # duplicated rows
    "dupcols",  # duplicated columns
    "lowrank",  # rank deficient
    "scaled",  # badly scaled columns
    "offset",  # large common offset
]


def make_array(recipe):
    """Materialise an array from an explicit recipe (pure function of the recipe).
    'cast' gives the caller's dtype (float32, or int64 for integer-valued data)."""
    a = _make_array(recipe)
    c = recipe.get("cast")
    if c == "float32" and a.dtype.kind == "f":
        return a.astype(np.float32)
    if c == "int64" and a.dtype.kind == "f" and np.all(a == np.round(a)):
        return a.astype(np.int64)
    return a


def _make_array(recipe):
    if "hex" in recipe or "val" in recipe:
        return hex_to_arr(recipe)
    kind = recipe["kind"]
    # composite recipes (kernels, index sets, weights) built from other recipes
    if kind == "gram":
        B = make_array(recipe["base"])
        return np.ascontiguousarray(_kernel(B, B, recipe.get("kernel", "linear")))
    if kind == "cross":
        A, B = make_array(recipe["a"]), make_array(recipe["b"])
        return np.ascontiguousarray(_kernel(A, B, recipe.get("kernel", "linear")))
    if kind == "rows":
        B = make_array(recipe["base"])
        return np.ascontiguousarray(B[np.asarray(recipe["idx"], dtype=int)])
    if kind == "linear_of":
        X = make_array(recipe["X"])
        rs = np.random.RandomState(recipe["seed"] & 0x7FFFFFFF)
        p = int(recipe.get("p", 1))
        Y = X @ rs.standard_normal((X.shape[1], p)) + float(recipe.get("noise", 0.1)) * rs.standard_normal((X.shape[0], p))
        if recipe.get("squeeze") and p == 1:
            Y = Y[:, 0]
        return np.ascontiguousarray(Y)
    if kind == "index":
        rs = np.random.RandomState(recipe["seed"] & 0x7FFFFFFF)
        n, k = int(recipe["n"]), int(recipe["k"])
        idx = rs.permutation(n)[:k]
        if recipe.get("sorted"):
            idx = np.sort(idx)
        if recipe.get("negative"):
            idx = idx - n  # the same positions, counted from the end
        return idx.astype(np.int64)
    if kind == "weights":
        rs = np.random.RandomState(recipe["seed"] & 0x7FFFFFFF)
        n = int(recipe["n"])
        mode = recipe.get("mode", "uniform")
        if mode == "ints":
            w = rs.randint(1, 4, size=n).astype(float)
        elif mode == "normalized":
            w = rs.uniform(0.2, 2.0, size=n)
            w = w / w.sum()
        else:
            w = rs.uniform(0.2, 2.0, size=n)
        return w
    if kind == "spd_stack":
        rs = np.random.RandomState(recipe["seed"] & 0x7FFFFFFF)
        k, d = int(recipe["k"]), int(recipe["d"])
        out = np.zeros((k, d, d))
        for i in range(k):
            L = rs.standard_normal((d, d))
            out[i] = L @ L.T + d * np.eye(d)
        return out[0] if recipe.get("single") else out
    if kind == "stack3":
        rs = np.random.RandomState(recipe["seed"] & 0x7FFFFFFF)
        return np.ascontiguousarray(rs.standard_normal(tuple(int(v) for v in recipe["shape"])))
    if kind == "const":
        return np.full(tuple(recipe["shape"]), float(recipe["value"]))
    n, d = recipe["shape"]
    rs = np.random.RandomState(recipe["seed"] & 0x7FFFFFFF)
    if kind == "gauss":
        a = rs.standard_normal((n, d))
    elif kind == "uniform":
        a = rs.uniform(-1, 1, (n, d))
    elif kind == "clusters":
        k = max(2, min(6, n // 3))
        centers = rs.uniform(-50, 50, (k, d))
        lab = rs.randint(k, size=n)
        a = centers[lab] + 0.05 * rs.standard_normal((n, d))
    elif kind == "lattice":
        a = rs.randint(-2, 3, size=(n, d)).astype(float)
    elif kind == "dups":
        m = min(n, max(2, n // 2))
        base = rs.standard_normal((m, d))
        a = base[rs.randint(m, size=n)]
        a[:m] = base
    elif kind == "dupcols":
        m = max(1, d // 2)
        base = rs.standard_normal((n, m))
        a = base[:, rs.randint(m, size=d)]
    elif kind == "samerows":
        a = np.tile(rs.standard_normal((1, d)), (n, 1))  # every sample identical: all distances 0
    elif kind == "lowrank":
        r = max(1, min(n, d) // 2)
        a = rs.standard_normal((n, r)) @ rs.standard_normal((r, d))
    elif kind == "scaled":
        a = rs.standard_normal((n, d)) * (10.0 ** rs.randint(-4, 5, size=d))
    elif kind == "offset":
        a = rs.standard_normal((n, d)) + 1e4
    elif kind == "targets":
        # y = X w + noise given as recipe["of"] handled by caller; fallback random
        a = rs.standard_normal((n, d))
    elif kind == "positive":
        a = rs.uniform(0.1, 2.0, (n, d))
    elif kind == "ints":
        a = rs.randint(recipe.get("lo", 0), recipe.get("hi", 3), size=(n, d)).astype(float)
    else:
        raise ValueError(kind)
    if recipe.get("center"):
        a = a - a.mean(axis=0)
    if recipe.get("scale_pow2"):
        a = a * 2.0 ** int(recipe["scale_pow2"])  # exact rescaling: tiny / huge length scales
    if recipe.get("squeeze"):
        a = a.reshape(-1) if d == 1 else a
    return np.ascontiguousarray(a, dtype=np.float64)


def _kernel(A, B, kernel):
    if kernel == "linear":
        return A @ B.T
    if kernel == "rbf":
        d2 = (A**2).sum(1)[:, None] + (B**2).sum(1)[None, :] - 2 * A @ B.T
        return np.exp(-np.maximum(d2, 0.0) / A.shape[1])
    raise ValueError(kernel)


def explicit(recipe):
    """Turn a recipe into an explicit-values recipe (used by the minimiser)."""
    a = make_array(recipe)
    out = arr_to_hex(a)
    for k in ("squeeze",):
        if k in recipe and a.ndim == 2:
            out[k] = recipe[k]
    return out


STORAGE_KINDS = ["C", "F", "view", "readonly", "memmap"]


class CallerArray(np.ndarray):
    """An ndarray subclass in the caller's hands (validation turns it into a base-class
    VIEW of the same memory, not a copy)."""


class Heap:
    """Caller-owned arrays with byte snapshots and canary margins."""

    CANARY = 7.25e77

    def __init__(self):
        self.entries = {}  # name -> dict(arr, snap, buf, storage)
        self._tmpdir = None

    def _canary(self, dtype):
        return self.CANARY if np.dtype(dtype).kind == "f" else 77777777

    def add(self, name, values, storage="C"):
        values = np.asarray(values)
        buf = None
        if storage == "C":
            arr = np.array(values, order="C", copy=True)
        elif storage == "F":
            arr = np.array(values, order="F", copy=True)
        elif storage == "readonly":
            arr = np.array(values, order="C", copy=True)
            arr.setflags(write=False)
        elif storage == "view" and values.ndim not in (1, 2):
            arr = np.array(values, order="C", copy=True)
        elif storage == "view":
            # strided view into a larger guarded buffer
            if values.ndim == 2:
                n, d = values.shape
                buf = np.full((2 * n + 2, 2 * d + 2), self._canary(values.dtype), dtype=values.dtype)
                arr = buf[1 : 2 * n + 1 : 2, 1 : 2 * d + 1 : 2]
            else:
                n = values.shape[0]
                buf = np.full((2 * n + 2,), self._canary(values.dtype), dtype=values.dtype)
                arr = buf[1 : 2 * n + 1 : 2]
            arr[...] = values
        elif storage == "subclass":
            arr = np.array(values, order="C", copy=True).view(CallerArray)
        elif storage == "memmap_rw":
            # a writable (copy-on-write) memory map of the caller's file: a write through a
            # view of it is possible and changes what the caller sees
            if self._tmpdir is None:
                self._tmpdir = tempfile.mkdtemp(prefix="hostsim_heap_", dir=os.environ.get("HOSTSIM_TMP") or None)
            path = os.path.join(self._tmpdir, f"{name}.rw.dat")
            mm = np.memmap(path, dtype=values.dtype, mode="w+", shape=values.shape)
            mm[...] = values
            mm.flush()
            del mm
            arr = np.memmap(path, dtype=values.dtype, mode="c", shape=values.shape)
        elif storage == "memmap":
            if self._tmpdir is None:
                self._tmpdir = tempfile.mkdtemp(prefix="hostsim_heap_", dir=os.environ.get("HOSTSIM_TMP") or None)
            path = os.path.join(self._tmpdir, f"{name}.dat")
            mm = np.memmap(path, dtype=values.dtype, mode="w+", shape=values.shape)
            mm[...] = values
            mm.flush()
            del mm
            os.chmod(path, 0o444)
            arr = np.memmap(path, dtype=values.dtype, mode="r", shape=values.shape)
        else:
            raise ValueError(storage)
        self.entries[name] = {
            "arr": arr,
            "snap": np.array(values, copy=True).tobytes(),
            "dtype": values.dtype,
            "shape": values.shape,
            "buf": buf,
            "bufsnap": None if buf is None else buf.tobytes(),
            "storage": storage,
        }
        return arr

    def get(self, name):
        return self.entries[name]["arr"]

    def pristine(self, name):
        e = self.entries[name]
        return np.frombuffer(e["snap"], dtype=e["dtype"]).reshape(e["shape"]).copy()

    def mutate(self, name, values):
        """The caller overwrites its own array in place (buffer reuse). Returns False
        when the storage is not writable."""
        e = self.entries[name]
        if e["storage"] in ("readonly", "memmap"):
            return False
        values = np.asarray(values, dtype=e["dtype"]).reshape(e["shape"])
        e["arr"][...] = values
        e["snap"] = np.array(values, copy=True).tobytes()
        if e["buf"] is not None:
            e["bufsnap"] = e["buf"].tobytes()
        return True

    def twin_copy(self, name):
        """A private, writable copy with the same values *and the same memory layout*
        as the caller's array, so that a history-free twin performs bit-identical
        arithmetic."""
        e = self.entries[name]
        v = self.pristine(name)
        if e["storage"] == "F":
            return np.array(v, order="F", copy=True)
        if e["storage"] == "view" and v.ndim in (1, 2):
            if v.ndim == 2:
                n, d = v.shape
                buf = np.zeros((2 * n + 2, 2 * d + 2), dtype=v.dtype)
                arr = buf[1 : 2 * n + 1 : 2, 1 : 2 * d + 1 : 2]
            else:
                n = v.shape[0]
                buf = np.zeros((2 * n + 2,), dtype=v.dtype)
                arr = buf[1 : 2 * n + 1 : 2]
            arr[...] = v
            return arr
        return v

    def twin_copy_like(self, name, layout_of=None):
        """The values of `name` in the memory layout of entry `layout_of` (a private copy):
        what the caller would have if it had copied its data into a buffer of that layout."""
        if layout_of is None or layout_of not in self.entries or layout_of == name:
            return self.twin_copy(name)
        e = self.entries[name]
        st = self.entries[layout_of]["storage"]
        saved = e["storage"]
        try:
            e["storage"] = st
            return self.twin_copy(name)
        finally:
            e["storage"] = saved

    def check(self):
        """Return the names of entries whose bytes (or canaries) changed."""
        bad = []
        for name, e in self.entries.items():
            cur = np.ascontiguousarray(np.asarray(e["arr"])).tobytes()
            if cur != e["snap"]:
                bad.append((name, "content"))
            elif e["storage"] in ("C", "F", "view", "subclass", "memmap_rw") and not np.asarray(e["arr"]).flags.writeable:
                # the caller's own buffer was locked (setflags(write=False)): the caller can no
                # longer refill it - a modification of the caller's array object
                bad.append((name, "made read-only"))
                try:
                    e["arr"].setflags(write=True)
                except Exception:  # noqa: BLE001
                    pass
            elif e["buf"] is not None and e["buf"].tobytes() != e["bufsnap"]:
                bad.append((name, "canary"))
        return bad

    def restore(self, name):
        """Re-create an entry from its snapshot (after a detected violation)."""
        e = self.entries[name]
        self.add(name, self.pristine(name), e["storage"])

    def close(self):
        if self._tmpdir is not None:
            import shutil

            for e in self.entries.values():
                if e["storage"] in ("memmap", "memmap_rw"):
                    e["arr"] = None
            shutil.rmtree(self._tmpdir, ignore_errors=True)
            self._tmpdir = None
