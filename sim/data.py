"""Caller-side storage: array recipes, exact values, storage kinds, guarded heap."""

import os
import tempfile

import numpy as np

from .util import arr_to_hex, hex_to_arr

KINDS = [
    "gauss",  # well conditioned
    "uniform",
    "clusters",  # tight far-apart clusters (Voronoi pruning active)
    "lattice",  # small integers: exact ties
    "dups",  # duplicated rows
    "dupcols",  # duplicated columns
    "lowrank",  # rank deficient
    "scaled",  # badly scaled columns
    "offset",  # large common offset
]


def make_array(recipe):
    """Materialise an array from an explicit recipe (pure function of the recipe)."""
    if "hex" in recipe or "val" in recipe:
        return hex_to_arr(recipe)
    kind = recipe["kind"]
    n, d = recipe["shape"]
    rs = np.random.RandomState(recipe["seed"] & 0x7FFFFFFF)
    if kind == "gauss":
        a = rs.standard_normal((n, d))
    elif kind == "uniform":
        a = rs.uniform(-1, 1, (n, d))
    elif kind == "clusters":
        k = max(2, min(6, n // 3))
        centers = rs.uniform(-50, 50, (k, d))
        lab = rs.randint(k, size=n)
        a = centers[lab] + 0.05 * rs.standard_normal((n, d))
    elif kind == "lattice":
        a = rs.randint(-2, 3, size=(n, d)).astype(float)
    elif kind == "dups":
        m = max(2, n // 2)
        base = rs.standard_normal((m, d))
        a = base[rs.randint(m, size=n)]
        a[:m] = base
    elif kind == "dupcols":
        m = max(1, d // 2)
        base = rs.standard_normal((n, m))
        a = base[:, rs.randint(m, size=d)]
    elif kind == "lowrank":
        r = max(1, min(n, d) // 2)
        a = rs.standard_normal((n, r)) @ rs.standard_normal((r, d))
    elif kind == "scaled":
        a = rs.standard_normal((n, d)) * (10.0 ** rs.randint(-4, 5, size=d))
    elif kind == "offset":
        a = rs.standard_normal((n, d)) + 1e4
    elif kind == "targets":
        # y = X w + noise given as recipe["of"] handled by caller; fallback random
        a = rs.standard_normal((n, d))
    elif kind == "positive":
        a = rs.uniform(0.1, 2.0, (n, d))
    elif kind == "ints":
        a = rs.randint(recipe.get("lo", 0), recipe.get("hi", 3), size=(n, d)).astype(float)
    else:
        raise ValueError(kind)
    if recipe.get("center"):
        a = a - a.mean(axis=0)
    if recipe.get("squeeze"):
        a = a.reshape(-1) if d == 1 else a
    return np.ascontiguousarray(a, dtype=np.float64)


def explicit(recipe):
    """Turn a recipe into an explicit-values recipe (used by the minimiser)."""
    a = make_array(recipe)
    out = arr_to_hex(a)
    for k in ("squeeze",):
        if k in recipe and a.ndim == 2:
            out[k] = recipe[k]
    return out


STORAGE_KINDS = ["C", "F", "view", "readonly", "memmap"]


class Heap:
    """Caller-owned arrays with byte snapshots and canary margins."""

    CANARY = 7.25e77

    def __init__(self):
        self.entries = {}  # name -> dict(arr, snap, buf, storage)
        self._tmpdir = None

    def add(self, name, values, storage="C"):
        values = np.asarray(values)
        buf = None
        if storage == "C":
            arr = np.array(values, order="C", copy=True)
        elif storage == "F":
            arr = np.array(values, order="F", copy=True)
        elif storage == "readonly":
            arr = np.array(values, order="C", copy=True)
            arr.setflags(write=False)
        elif storage == "view":
            # strided view into a larger guarded buffer
            if values.ndim == 2:
                n, d = values.shape
                buf = np.full((2 * n + 2, 2 * d + 2), self.CANARY, dtype=values.dtype)
                arr = buf[1 : 2 * n + 1 : 2, 1 : 2 * d + 1 : 2]
            else:
                n = values.shape[0]
                buf = np.full((2 * n + 2,), self.CANARY, dtype=values.dtype)
                arr = buf[1 : 2 * n + 1 : 2]
            arr[...] = values
        elif storage == "memmap":
            if self._tmpdir is None:
                self._tmpdir = tempfile.mkdtemp(prefix="hostsim_heap_")
            path = os.path.join(self._tmpdir, f"{name}.dat")
            mm = np.memmap(path, dtype=values.dtype, mode="w+", shape=values.shape)
            mm[...] = values
            mm.flush()
            del mm
            os.chmod(path, 0o444)
            arr = np.memmap(path, dtype=values.dtype, mode="r", shape=values.shape)
        else:
            raise ValueError(storage)
        self.entries[name] = {
            "arr": arr,
            "snap": np.array(values, copy=True).tobytes(),
            "dtype": values.dtype,
            "shape": values.shape,
            "buf": buf,
            "bufsnap": None if buf is None else buf.tobytes(),
            "storage": storage,
        }
        return arr

    def get(self, name):
        return self.entries[name]["arr"]

    def pristine(self, name):
        e = self.entries[name]
        return np.frombuffer(e["snap"], dtype=e["dtype"]).reshape(e["shape"]).copy()

    def check(self):
        """Return the names of entries whose bytes (or canaries) changed."""
        bad = []
        for name, e in self.entries.items():
            cur = np.ascontiguousarray(np.asarray(e["arr"])).tobytes()
            if cur != e["snap"]:
                bad.append((name, "content"))
            elif e["buf"] is not None and e["buf"].tobytes() != e["bufsnap"]:
                bad.append((name, "canary"))
        return bad

    def restore(self, name):
        """Re-create an entry from its snapshot (after a detected violation)."""
        e = self.entries[name]
        self.add(name, self.pristine(name), e["storage"])

    def close(self):
        if self._tmpdir is not None:
            import shutil

            for e in self.entries.values():
                if e["storage"] == "memmap":
                    e["arr"] = None
            shutil.rmtree(self._tmpdir, ignore_errors=True)
            self._tmpdir = None
