"""Trace generation for C09 (purity / parameter stability / refit / repeatability)."""

import copy

import numpy as np

from . import data as D
from .purity import ALL_CLASSES, FUNCS, SELECTORS, PurityWorld
from .selgen import clock_fault, n_form

STORAGES = ["C", "C", "C", "F", "view", "readonly", "memmap", "memmap_rw", "subclass"]
WELL = ["gauss", "uniform", "scaled", "clusters"]
ANYK = ["gauss", "uniform", "scaled", "clusters", "lattice", "dups", "lowrank", "offset", "samerows", "samerows"]


def _seed(rng):
    return rng.randrange(1, 2**31 - 1)


class Builder:
    def __init__(self, rng, faults):
        self.rng = rng
        self.faults = faults
        self.heap = {}
        self.ops = []
        self.k = 0
        self.arpack_fail = False  # this run is about an ARPACK call that does not converge
        self.linalg_fail = False  # ... about a dense LAPACK-backed call that does not converge

    def add(self, recipe, role, storage=None):
        name = f"a{self.k}"
        self.k += 1
        r = dict(recipe)
        r["role"] = role
        r["storage"] = storage if storage is not None else self.rng.choice(STORAGES)
        self.heap[name] = r
        return name

    def ref(self, recipe, role, storage=None):
        return {"$h": self.add(recipe, role, storage)}

    # ---- data bundles
    def X(self, n, m, kinds=WELL, center=False, role="data"):
        r = {"kind": self.rng.choice(kinds), "shape": [n, m], "seed": _seed(self.rng)}
        if center:
            r["center"] = True
        elif self.rng.random() < 0.08:
            # the caller's dtype: single precision, or integers for integer-valued data
            r["cast"] = "int64" if r["kind"] == "lattice" else "float32"
        return r

    def y_of(self, Xrec, p=1, squeeze=True, noise=0.1):
        return {"kind": "linear_of", "X": _strip(Xrec), "p": p, "seed": _seed(self.rng), "squeeze": squeeze, "noise": noise}

    def w(self, n, mode=None):
        return {"kind": "weights", "n": n, "mode": mode or self.rng.choice(["uniform", "ints", "normalized"]), "seed": _seed(self.rng)}

    def env(self, kind, params=None, allow=("rng",)):
        """Per-op environment script; faults only in the fault batch."""
        rng = self.rng
        if not self.faults:
            return {"rng": {"seed": _seed(rng)}} if "rng_always" in allow else None
        e = {}
        if "rng" in allow or "rng_always" in allow:
            if rng.random() < 0.7 or "rng_always" in allow:
                e["rng"] = {"seed": _seed(rng)}
        if "clock" in allow and rng.random() < 0.8:
            nt = (params or {}).get("n_trial_calculation", 4) or 4
            if isinstance(nt, dict):
                nt = nt.get("$npint", 4)
            e["clock"] = clock_fault(rng, int(nt))
        if "arpack" in allow and rng.random() < 0.7:
            e["arpack"] = {"mode": rng.choice(["dense", "sparse", "orth", "same"]), "seed": _seed(rng)}
            if "interrupt" in allow and rng.random() < 0.5:
                e["arpack"]["fail_at"] = rng.randint(1, 5)  # this ARPACK call does not converge
        if self.arpack_fail and "arpack" in allow and "interrupt" in allow:
            # the first (or an early) ARPACK call of this operation does not converge: a legal,
            # rare outcome of eigsh/svds; no other fault competes with it in this operation
            e["arpack"] = {"mode": rng.choice(["dense", "sparse", "same"]), "seed": _seed(rng), "fail_at": rng.choice([1, 1, 1, 2, 3])}
            allow = [a for a in allow if a != "interrupt"]
        if "joblib" in allow and rng.random() < 0.8:
            # Ridge2FoldCV's per-alpha tasks only read shared arrays on the unchanged tree, so
            # they may also run as shared-memory threads whose line-level interleaving the seed
            # decides (the local reconstruction error shares one estimator between its tasks
            # and is kept to atomic tasks, DESIGN 5.4)
            modes = ["reorder", "reorder", "batch", "isolate", "twice"] + (["threads", "threads"] if kind == "Ridge2FoldCV" else [])
            e["joblib"] = {
                "mode": rng.choice(modes),
                "switch": rng.choice([0.05, 0.2, 0.5, 1.0]),
                "seed": _seed(rng),
                "workers": rng.randint(2, 4),
                "reorder": rng.random() < 0.7,
                "batch": rng.randint(2, 4),
            }
        if "stderr" in allow and rng.random() < 0.6:
            e["stderr"] = {"mode": rng.choice(["eio", "closed", "epipe", "enospc", "none"]), "at": rng.randint(1, 5)}
            if rng.random() < 0.5:
                # slow steps: tqdm's (simulated) redraw timer elapses at every step
                e["stderr"]["step_dt"] = rng.choice([0.06, 0.25, 0.25, 5.0])
                e["stderr"]["at"] = rng.randint(1, 8)
        if "interrupt" in allow and not self.arpack_fail and (self.linalg_fail or rng.random() < 0.12):
            # a dense LAPACK-backed routine called by skmatter does not converge (LinAlgError):
            # the operation fails with it, or a fallback path of the library takes over
            e["linalg"] = {"fail_at": rng.choice([1, 1, 2, 2, 3, 4])}
            allow = [a for a in allow if a != "interrupt"]
            e.pop("stderr", None)
        if "interrupt" in allow and rng.random() < 0.5:
            e["interrupt"] = {"exc": rng.choice(["KeyboardInterrupt", "MemoryError"]), "frac": round(rng.uniform(0.02, 0.98), 3)}
            if rng.random() < 0.12:
                e["interrupt"]["all"] = True  # enumerate every crash point of this call
        return e or None


def _strip(r):
    return {k: v for k, v in r.items() if k not in ("role", "storage")}


# ----------------------------------------------------------------------------- subjects
# Each subject returns a dict:
#   params: constructor parameters (trace references)
#   fitA / fitB: two fit-argument sets forming a two-step history (B may equal None)
#   reads: list of (method, args)   -- evaluated after the last fit
#   envs: which environment kinds can matter for this class
#   repeatable: whether clause 4 applies as generated (integer or no random_state)


def subj_selector(b, kind, pattern):
    rng = b.rng
    mod, cls, axis = SELECTORS[kind]
    fam = {"FPS": "fps", "PCovFPS": "pcovfps", "CUR": "cur", "PCovCUR": "pcovcur", "VoronoiFPS": "voronoi"}[cls]
    needs_y = fam in ("pcovfps", "pcovcur")
    # comparisons between two executions are only meaningful where the selection is well
    # defined (no exhausted candidates / degenerate spectra); purity-only runs use any data
    kinds = WELL if pattern in ("repeat", "refit", "single", "interleave") else ANYK
    n, m = rng.randint(4, 16), rng.randint(3, 9)
    XA = b.X(n, m, kinds)
    n2, m2 = (n, m) if rng.random() < 0.3 else (rng.randint(4, 16), rng.randint(3, 9))
    XB = b.X(n2, m2, kinds)
    nfA, nfB = (XA["shape"][axis], XB["shape"][axis])
    lim = min(nfA, nfB)
    if fam in ("cur", "pcovcur") and pattern in ("repeat", "refit", "single", "interleave"):
        lim = max(1, min(lim, min(min(XA["shape"]), min(XB["shape"])) - 3))
    N = rng.randint(1, max(1, lim))
    p = {"n_to_select": N}
    if fam in ("fps", "pcovfps", "voronoi"):
        r = rng.random()
        if r < 0.5:
            p["initialize"] = rng.randrange(lim)
            if rng.random() < 0.12:
                p["initialize"] = -1 - rng.randrange(lim)  # counted from the end
        elif r < 0.7:
            p["initialize"] = "random"
            if rng.random() < 0.65:  # else: the documented default (0), still reproducible
                p["random_state"] = rng.randrange(100)
                if rng.random() < 0.3:
                    p["random_state"] = {"$npint": p["random_state"], "dtype": "int64"}
        elif fam == "fps":
            k = rng.randint(1, min(N, 3))
            ia = b.add({"kind": "index", "n": lim, "k": k, "seed": _seed(rng)}, "index_list", "C")
            p["initialize"] = {"$pylist": ia} if rng.random() < 0.5 else {"$h": ia}
    if fam in ("pcovfps", "pcovcur"):
        p["mixing"] = rng.choice([0.1, 0.5, 0.9])
    if fam in ("cur", "pcovcur"):
        p["k"] = 1 if min(min(XA["shape"]), min(XB["shape"])) < 5 else rng.choice([1, 1, 2])
        p["recompute_every"] = rng.choice([0, 1, 1, 2])
    if fam == "voronoi":
        if (pattern == "single" and rng.random() < 0.5) or (pattern in ("refit", "fault") and rng.random() < 0.3) or (pattern == "repeat" and rng.random() < 0.35):
            p["n_trial_calculation"] = rng.randint(1, 4)  # calibrated default
        else:
            p["full_fraction"] = rng.choice([1e-9, 0.1, 0.3, 0.5, 0.9, 1.0])
    if rng.random() < 0.15:
        p["progress_bar"] = True
    if rng.random() < 0.1:
        p["full"] = True
    elif rng.random() < 0.25:
        t = rng.choice(["absolute", "relative", "relative"])
        p["score_threshold_type"] = t
        p["score_threshold"] = 10 ** rng.uniform(-3, -0.3) if (t == "relative" or fam in ("cur", "pcovcur")) else 10 ** rng.uniform(-3, 1)
    if "samerows" in (XA["kind"], XB["kind"]) and rng.random() < 0.8:
        # identical samples: every score after the first pick is exactly 0, so a relative
        # threshold divides 0 by 0 (the degenerate branch of the threshold logic)
        p.pop("full", None)
        p["score_threshold_type"] = "relative"
        p["score_threshold"] = rng.choice([0.5, 1e-3])
    xa, xb = b.ref(XA, "data"), b.ref(XB, "data")
    ya = b.ref(b.y_of(XA), "target")
    yb = b.ref(b.y_of(XB), "target")
    fitA = {"X": xa}
    fitB = {"X": xb}
    if needs_y:
        fitA["y"], fitB["y"] = ya, yb
    else:
        r = rng.random()
        if r < 0.35:
            fitA["y"] = ya  # with y -> without y
        elif r < 0.55:
            fitB["y"] = yb  # without y -> with y
        elif r < 0.75:
            fitA["y"], fitB["y"] = ya, yb
    reads = [("score", {"X": "$LASTX", "y": "$LASTY"}), ("get_support", {}), ("get_support", {"indices": True, "ordered": True}), ("get_support", {"indices": True})]
    if axis == 1:
        reads.append(("transform", {"X": "$LASTX"}))
    if fam in ("fps", "pcovfps", "voronoi"):
        reads += [("get_distance", {}), ("get_select_distance", {})]
    envs = ["rng"]
    if fam == "voronoi":
        envs.append("clock")
    if fam == "pcovcur" or (fam == "cur" and b.arpack_fail):
        envs.append("arpack")
    if p.get("progress_bar"):
        envs.append("stderr")
    skip = ["report_progress_"]
    alts = [{"n_to_select": rng.randint(1, max(1, lim))}, {"progress_bar": not p.get("progress_bar", False)}, {"full": not p.get("full", False)}]
    if "score_threshold" in p:
        alts.append({"score_threshold": None})
    elif not p.get("full"):
        alts.append({"score_threshold": 10 ** rng.uniform(-3, -0.3), "score_threshold_type": rng.choice(["absolute", "relative"])})
    if fam in ("fps", "pcovfps", "voronoi"):
        alts.append({"initialize": rng.randrange(lim)})
        alts.append({"initialize": "random", "random_state": rng.randrange(100)})
    if fam in ("pcovfps", "pcovcur"):
        alts.append({"mixing": rng.choice([0.2, 0.6, 1.0])})
    if fam in ("cur", "pcovcur"):
        alts.append({"recompute_every": rng.choice([0, 1, 2])})
    if fam == "voronoi" and "full_fraction" in p:
        alts.append({"full_fraction": rng.choice([1e-9, 0.2, 0.7, 1.0])})
    return dict(params=p, fitA=fitA, fitB=fitB, reads=reads, envs=envs, repeatable=True, fit_transform=(axis == 1), skip=skip, alts=alts)


def subj_dch(b, kind, pattern):
    rng = b.rng
    n, m = rng.randint(8, 20), rng.randint(1, 4)
    XA, XB = b.X(n, m, ["gauss", "uniform"]), b.X(rng.randint(8, 20), m, ["gauss", "uniform"])
    nlow = rng.randint(1, min(2, m))
    p = {}
    if rng.random() < 0.8:
        rec = {"kind": "index", "n": m, "k": nlow, "seed": _seed(rng)}
        if rng.random() < 0.3:
            rec["negative"] = True  # columns counted from the end
        ia = b.add(rec, "index_list", "C")
        p["low_dim_idx"] = {"$pylist": ia}
    elif m == 1 or nlow == 1:
        pass
    fitA = {"X": b.ref(XA, "data"), "y": b.ref(b.y_of(XA, noise=1.0), "target")}
    fitB = {"X": b.ref(XB, "data"), "y": b.ref(b.y_of(XB, noise=1.0), "target")}
    XN = b.X(rng.randint(2, 6), m, ["uniform"])
    reads = [("score_samples", {"X": "$LASTX", "y": "$LASTY"}), ("score_feature_matrix", {"X": "$LASTX"}),
             ("score_samples", {"X": b.ref(XN, "data"), "y": b.ref(b.y_of(XN, noise=1.0), "target")})]
    if rng.random() < 0.2:
        p["tolerance"] = rng.choice([1e-10, 1e-8])
    alts = [{"tolerance": rng.choice([1e-11, 1e-9, 1e-7])}]
    return dict(params=p, fitA=fitA, fitB=fitB, reads=reads, envs=["rng"], repeatable=True, fit_transform=False, alts=alts)


def subj_pcovr(b, kind, pattern):
    rng = b.rng
    n, m = rng.randint(6, 16), rng.randint(3, 10)
    XA = b.X(n, m, ["gauss", "uniform", "scaled"], center=True)
    XB = b.X(*((n, m) if rng.random() < 0.3 else (rng.randint(6, 16), rng.randint(3, 10))), ["gauss", "uniform"], center=True)
    pdim = rng.randint(1, 3)
    kmax = min(min(XA["shape"]), min(XB["shape"])) - 1
    solver = rng.choice(["full", "full", "auto", "arpack", "randomized"])
    if b.arpack_fail:
        solver = "arpack"
    p = {"mixing": rng.choice([0.1, 0.5, 0.9, 1.0]), "n_components": rng.randint(1, max(1, min(kmax, 4))), "svd_solver": solver}
    if solver in ("arpack", "randomized"):
        p["random_state"] = rng.randrange(1000) if (pattern == "repeat" or rng.random() < 0.6) else None
    if rng.random() < 0.4:
        p["space"] = rng.choice(["feature", "sample"])
    if b.linalg_fail and rng.random() < 0.7:
        p["space"] = "feature"  # the route with a LinAlgError fallback (lstsq -> matrix square root)
    r = rng.random()
    if r < 0.3:
        p["regressor"] = {"$est": ["Ridge", {"alpha": 10 ** rng.uniform(-8, -2), "fit_intercept": False, "tol": 1e-12}]}
    elif r < 0.45:
        p["regressor"] = {"$est": ["LinearRegression", {"fit_intercept": False}]}
    elif r < 0.6:
        p["regressor"] = "precomputed"
    sq = pdim == 1 and rng.random() < 0.5 and p.get("regressor") != "precomputed"
    fitA = {"X": b.ref(XA, "data"), "Y": b.ref(b.y_of(XA, pdim, squeeze=sq), "target")}
    fitB = {"X": b.ref(XB, "data"), "Y": b.ref(b.y_of(XB, pdim, squeeze=sq), "target")}
    if p.get("regressor") == "precomputed" and rng.random() < 0.6:
        # caller-supplied regression weights (n_features x n_properties)
        fitA["W"] = b.ref({"kind": "gauss", "shape": [XA["shape"][1], pdim], "seed": _seed(rng)}, "weights_matrix")
        fitB["W"] = b.ref({"kind": "gauss", "shape": [XB["shape"][1], pdim], "seed": _seed(rng)}, "weights_matrix")
    T = b.ref({"kind": "gauss", "shape": [5, p["n_components"]], "seed": _seed(rng)}, "latent")
    reads = [("transform", {"X": "$LASTX"}), ("predict", {"X": "$LASTX"}), ("score", {"X": "$LASTX", "Y": "$LASTY"}), ("inverse_transform", {"T": T}), ("predict", {"T": T})]
    if rng.random() < 0.2:
        p["tol"] = rng.choice([1e-10, 1e-14])
    if solver == "randomized" and rng.random() < 0.5:
        p["iterated_power"] = rng.choice([2, 5])
    rep = not (solver in ("arpack", "randomized") and p.get("random_state") is None)
    alts = [{"mixing": rng.choice([0.2, 0.7, 1.0])}, {"space": rng.choice(["feature", "sample", "auto"])}, {"tol": rng.choice([1e-10, 1e-13])},
            {"svd_solver": rng.choice(["full", "arpack", "randomized", "auto"]), "random_state": rng.randrange(1000)}]
    if "W" not in fitB:
        alts.append({"regressor": None})
        alts.append({"regressor": {"$est": ["Ridge", {"alpha": 10 ** rng.uniform(-8, -2), "fit_intercept": False, "tol": 1e-12}]}})
        alts.append({"regressor": {"$est": ["LinearRegression", {"fit_intercept": False}]}})
        if not sq:
            alts.append({"regressor": "precomputed"})
            alts.append({"regressor": "precomputed"})
    return dict(params=p, fitA=fitA, fitB=fitB, reads=reads, envs=["rng_always"] + (["arpack"] if solver == "arpack" else []), repeatable=rep, fit_transform=True, ykey="Y", alts=alts)


def subj_kpcovr(b, kind, pattern):
    rng = b.rng
    n, m = rng.randint(6, 14), rng.randint(2, 6)
    XA = b.X(n, m, ["gauss", "uniform"], center=True)
    XB = b.X(*((n, m) if rng.random() < 0.3 else (rng.randint(6, 14), rng.randint(2, 6))), ["gauss", "uniform"], center=True)
    pdim = rng.randint(1, 2)
    kmax = min(XA["shape"][0], XB["shape"][0]) - 2
    solver = rng.choice(["full", "full", "auto", "arpack", "randomized"])
    if b.arpack_fail:
        solver = "arpack"
    kern = rng.choice(["linear", "rbf", "precomputed"])
    p = {"mixing": rng.choice([0.1, 0.5, 0.9]), "n_components": rng.randint(1, max(1, min(kmax, 3))), "svd_solver": solver, "kernel": kern}
    if kern == "rbf":
        p["gamma"] = rng.choice([0.1, 0.5, 1.0])
    if kern == "precomputed":
        # the caller computes the kernels: train-train for fit, test-train for the reads
        k0 = rng.choice(["linear", "rbf"])
        if solver in ("arpack", "randomized"):
            p["random_state"] = rng.randrange(1000) if (pattern == "repeat" or rng.random() < 0.6) else None
        if rng.random() < 0.5:
            p["center"] = True
        KA = {"kind": "gram", "base": _strip(XA), "kernel": k0}
        KB = {"kind": "gram", "base": _strip(XB), "kernel": k0}
        fitA = {"X": b.ref(KA, "kernel"), "Y": b.ref(b.y_of(XA, pdim, squeeze=False), "target")}
        fitB = {"X": b.ref(KB, "kernel"), "Y": b.ref(b.y_of(XB, pdim, squeeze=False), "target")}
        XT = b.X(rng.randint(1, 6), XB["shape"][1], ["gauss"])
        KT = b.ref({"kind": "cross", "a": _strip(XT), "b": _strip(XB), "kernel": k0}, "kernel")
        reads = [("transform", {"X": KT}), ("predict", {"X": KT}), ("transform", {"X": "$LASTX"}), ("predict", {"X": "$LASTX"})]
        rep = not (solver in ("arpack", "randomized") and p.get("random_state") is None)
        alts = [{"center": not p.get("center", False)}, {"mixing": rng.choice([0.2, 0.7])}, {"center": not p.get("center", False)}]
        return dict(params=p, fitA=fitA, fitB=fitB, reads=reads, envs=["rng_always"] + (["arpack"] if solver == "arpack" else []), repeatable=rep, fit_transform=False, ykey="Y", alts=alts)
    if solver in ("arpack", "randomized"):
        p["random_state"] = rng.randrange(1000) if (pattern == "repeat" or rng.random() < 0.6) else None
    if rng.random() < 0.4:
        p["center"] = True
    if rng.random() < 0.3:
        p["fit_inverse_transform"] = True
    if rng.random() < 0.3:
        kw = {"kernel": kern, "alpha": 10 ** rng.uniform(-6, -1)}
        if kern == "rbf":
            kw["gamma"] = p["gamma"]
        p["regressor"] = {"$est": ["KernelRidge", kw]}
    fitA = {"X": b.ref(XA, "data"), "Y": b.ref(b.y_of(XA, pdim, squeeze=False), "target")}
    fitB = {"X": b.ref(XB, "data"), "Y": b.ref(b.y_of(XB, pdim, squeeze=False), "target")}
    reads = [("transform", {"X": "$LASTX"}), ("predict", {"X": "$LASTX"}), ("score", {"X": "$LASTX", "Y": "$LASTY"})]
    if p.get("fit_inverse_transform"):
        reads.append(("inverse_transform", {"T": b.ref({"kind": "gauss", "shape": [4, p["n_components"]], "seed": _seed(rng)}, "latent")}))
    XN = b.X(rng.randint(1, 5), XB["shape"][1], ["gauss"])
    reads.append(("transform", {"X": b.ref(XN, "data")}))
    reads.append(("predict", {"X": b.ref(XN, "data")}))
    rep = not (solver in ("arpack", "randomized") and p.get("random_state") is None)
    alts = [{"center": not p.get("center", False)}, {"center": not p.get("center", False)}, {"mixing": rng.choice([0.2, 0.7])},
            {"fit_inverse_transform": not p.get("fit_inverse_transform", False)}]
    if "regressor" in p:
        alts.append({"regressor": None})
    else:
        alts.append({"kernel": "rbf" if kern == "linear" else "linear", "gamma": 0.5})
        kw2 = {"kernel": kern, "alpha": 10 ** rng.uniform(-6, -1)}
        if kern == "rbf":
            kw2["gamma"] = p["gamma"]
        alts.append({"regressor": {"$est": ["KernelRidge", kw2]}})
    return dict(params=p, fitA=fitA, fitB=fitB, reads=reads, envs=["rng_always"] + (["arpack"] if solver == "arpack" else []), repeatable=rep, fit_transform=False, ykey="Y", alts=alts)


def subj_scaler(b, kind, pattern):
    rng = b.rng
    n, m = rng.randint(3, 14), rng.randint(1, 7)
    XA = b.X(n, m, ["gauss", "uniform", "scaled", "offset"])
    XB = b.X(*((n, m) if rng.random() < 0.3 else (rng.randint(3, 14), rng.randint(1, 7))), ["gauss", "uniform", "scaled"])
    p = {"with_mean": rng.random() < 0.7, "with_std": rng.random() < 0.7, "column_wise": rng.random() < 0.5}
    if rng.random() < 0.3:
        p["copy"] = rng.random() < 0.5
    if rng.random() < 0.15:
        p["rtol"], p["atol"] = rng.choice([0, 1e-8]), rng.choice([1e-12, 1e-9])
    fitA, fitB = {"X": b.ref(XA, "data")}, {"X": b.ref(XB, "data")}
    r = rng.random()
    if r < 0.35:
        fitA["sample_weight"] = b.ref(b.w(XA["shape"][0]), "weights")
    elif r < 0.6:
        fitB["sample_weight"] = b.ref(b.w(XB["shape"][0]), "weights")
    T = b.ref({"kind": "gauss", "shape": [4, XB["shape"][1]], "seed": _seed(rng)}, "data")
    reads = [("transform", {"X": "$LASTX"}), ("inverse_transform", {"X_tr": T}), ("transform", {"X": "$LASTX", "copy": True})]
    alts = [{"with_mean": not p["with_mean"]}, {"with_std": not p["with_std"]}, {"column_wise": not p["column_wise"]}]
    return dict(params=p, fitA=fitA, fitB=fitB, reads=reads, envs=["rng"], repeatable=True, fit_transform=True, ft_weight=True, alts=alts)


def subj_knorm(b, kind, pattern):
    rng = b.rng
    n, m = rng.randint(3, 12), rng.randint(2, 5)
    FA = b.X(n, m, ["gauss", "uniform"])
    FB = b.X(n if rng.random() < 0.3 else rng.randint(3, 12), m, ["gauss", "uniform"])
    kern = rng.choice(["linear", "rbf"])
    KA = {"kind": "gram", "base": _strip(FA), "kernel": kern}
    KB = {"kind": "gram", "base": _strip(FB), "kernel": kern}
    p = {"with_center": rng.random() < 0.8, "with_trace": rng.random() < 0.8}
    fitA, fitB = {"K": b.ref(KA, "kernel")}, {"K": b.ref(KB, "kernel")}
    r = rng.random()
    if r < 0.35:
        fitA["sample_weight"] = b.ref(b.w(FA["shape"][0]), "weights")
    elif r < 0.6:
        fitB["sample_weight"] = b.ref(b.w(FB["shape"][0]), "weights")
    FT = b.X(rng.randint(1, 6), m, ["gauss"])
    KT = {"kind": "cross", "a": _strip(FT), "b": _strip(FB), "kernel": kern}
    reads = [("transform", {"K": b.ref(KT, "kernel")}), ("transform", {"K": "$LASTK"})]
    alts = [{"with_center": not p["with_center"]}, {"with_trace": not p["with_trace"]}]
    return dict(params=p, fitA=fitA, fitB=fitB, reads=reads, envs=["rng"], repeatable=True, fit_transform=True, xkey="K", ft_weight=True, alts=alts)


def subj_skc(b, kind, pattern):
    rng = b.rng
    m = rng.randint(2, 5)
    nA, nB = rng.randint(4, 12), rng.randint(4, 12)
    FA, FB = b.X(nA, m, ["gauss", "uniform"]), b.X(nB, m, ["gauss", "uniform"])
    kA, kB = rng.randint(2, min(4, nA)), rng.randint(2, min(4, nB))
    kern = rng.choice(["linear", "rbf"])
    actA = {"kind": "rows", "base": _strip(FA), "idx": list(range(kA))}
    actB = {"kind": "rows", "base": _strip(FB), "idx": list(range(kB))}
    p = {"with_center": rng.random() < 0.8, "with_trace": rng.random() < 0.8}
    fitA = {"Knm": b.ref({"kind": "cross", "a": _strip(FA), "b": actA, "kernel": kern}, "kernel"), "Kmm": b.ref({"kind": "gram", "base": actA, "kernel": kern}, "kernel")}
    fitB = {"Knm": b.ref({"kind": "cross", "a": _strip(FB), "b": actB, "kernel": kern}, "kernel"), "Kmm": b.ref({"kind": "gram", "base": actB, "kernel": kern}, "kernel")}
    r = rng.random()
    if r < 0.35:
        fitA["sample_weight"] = b.ref(b.w(nA), "weights")
    elif r < 0.6:
        fitB["sample_weight"] = b.ref(b.w(nB), "weights")
    FT = b.X(rng.randint(1, 5), m, ["gauss"])
    reads = [("transform", {"Knm": b.ref({"kind": "cross", "a": _strip(FT), "b": actB, "kernel": kern}, "kernel")})]
    alts = [{"with_center": not p["with_center"]}, {"with_trace": not p["with_trace"]}]
    return dict(params=p, fitA=fitA, fitB=fitB, reads=reads, envs=["rng"], repeatable=True, fit_transform=True, xkey="Knm", ft_weight=True, alts=alts)


def subj_ridge(b, kind, pattern):
    rng = b.rng
    n, m = rng.randint(6, 20), rng.randint(1, 7)
    XA = b.X(n, m, ["gauss", "uniform", "scaled"])
    XB = b.X(*((n, m) if rng.random() < 0.3 else (rng.randint(6, 20), rng.randint(1, 7))), ["gauss", "uniform"])
    pdim = rng.randint(1, 3)
    at = rng.choice(["absolute", "relative"])
    na = rng.randint(1, 6)
    alphas = [10 ** rng.uniform(-9, 2) for _ in range(na)] if at == "absolute" else [rng.choice([0.0, 10 ** rng.uniform(-9, -0.1)]) for _ in range(na)]
    p = {"alpha_type": at, "regularization_method": rng.choice(["tikhonov", "cutoff"]), "n_jobs": rng.choice([None, 1, 2, 3])}
    if rng.random() < 0.5:
        p["alphas"] = {"$h": b.add({"dtype": "float64", "shape": [na], "hex": [float(a).hex() for a in alphas]}, "alphas", rng.choice(["C", "readonly", "view"]))}
    else:
        p["alphas"] = alphas
    if rng.random() < 0.5:
        p["scoring"] = rng.choice(["neg_root_mean_squared_error", "r2"])
    r = rng.random()
    if r < 0.35 or pattern == "repeat":
        p["shuffle"] = True
        p["random_state"] = rng.randrange(1000)
        if rng.random() < 0.3:
            p["random_state"] = {"$npint": p["random_state"], "dtype": rng.choice(["int64", "int32"])}
    elif r < 0.55:
        p["shuffle"] = False
    fitA = {"X": b.ref(XA, "data"), "y": b.ref(b.y_of(XA, pdim, squeeze=False), "target")}
    fitB = {"X": b.ref(XB, "data"), "y": b.ref(b.y_of(XB, pdim, squeeze=False), "target")}
    reads = [("predict", {"X": "$LASTX"})]
    rep = not (p.get("shuffle", True) and p.get("random_state") is None)
    alts = [{"regularization_method": "cutoff" if p["regularization_method"] == "tikhonov" else "tikhonov"},
            {"scoring": rng.choice(["neg_root_mean_squared_error", "r2", "neg_mean_squared_error"])}, {"n_jobs": rng.choice([None, 1, 2, 3])},
            {"shuffle": True, "random_state": rng.randrange(1000)}, {"shuffle": False}]
    return dict(params=p, fitA=fitA, fitB=fitB, reads=reads, envs=["rng_always", "joblib"], repeatable=rep, fit_transform=False, alts=alts)


def subj_orth(b, kind, pattern):
    rng = b.rng
    n, m, t = rng.randint(5, 14), rng.randint(1, 6), rng.randint(1, 6)
    XA = b.X(n, m, ["gauss", "uniform"])
    XB = b.X(n if rng.random() < 0.3 else rng.randint(5, 14), m if rng.random() < 0.5 else rng.randint(1, 6), ["gauss", "uniform"])
    p = {"use_orthogonal_projector": rng.random() < 0.6}
    if rng.random() < 0.3:
        p["linear_estimator"] = {"$est": ["Ridge", {"alpha": 1e-6, "fit_intercept": False}]}
    tB = t if rng.random() < 0.5 else rng.randint(1, 6)
    fitA = {"X": b.ref(XA, "data"), "y": b.ref({"kind": "gauss", "shape": [XA["shape"][0], t], "seed": _seed(rng)}, "target")}
    fitB = {"X": b.ref(XB, "data"), "y": b.ref({"kind": "gauss", "shape": [XB["shape"][0], tB], "seed": _seed(rng)}, "target")}
    reads = [("predict", {"X": "$LASTX"})]
    alts = [{"use_orthogonal_projector": not p["use_orthogonal_projector"]}, {"use_orthogonal_projector": not p["use_orthogonal_projector"]},
            {"linear_estimator": None if "linear_estimator" in p else {"$est": ["Ridge", {"alpha": 1e-6, "fit_intercept": False}]}}]
    return dict(params=p, fitA=fitA, fitB=fitB, reads=reads, envs=["rng"], repeatable=True, fit_transform=False, alts=alts)


def subj_kde(b, kind, pattern):
    rng = b.rng
    d = rng.randint(1, 2)
    n = rng.randint(20, 40)
    Dsc = {"kind": "clusters" if rng.random() < 0.5 else "gauss", "shape": [n, d], "seed": _seed(rng)}
    p = {"descriptors": b.ref(Dsc, "descriptors")}
    if rng.random() < 0.6:
        p["weights"] = b.ref(b.w(n), "weights")
    if rng.random() < 0.3:
        p["fspread"] = rng.choice([0.2, 0.5])
    else:
        p["fpoints"] = rng.choice([0.3, 0.5])
    if rng.random() < 0.25:
        p["metric_params"] = {"$dict": {"cell_length": {"$cell": [200.0] * d}}}
    if rng.random() < 0.3:
        p["verbose"] = True
    gA = {"kind": "rows", "base": _strip(Dsc), "idx": sorted(rng.sample(range(n), rng.randint(4, 7)))}
    gB = {"kind": "rows", "base": _strip(Dsc), "idx": sorted(rng.sample(range(n), rng.randint(4, 7)))}
    fitA, fitB = {"X": b.ref(gA, "grid")}, {"X": b.ref(gB, "grid")}
    Q = b.ref({"kind": "gauss", "shape": [4, d], "seed": _seed(rng)}, "query")
    reads = [("score_samples", {"X": Q}), ("score", {"X": Q}), ("sample", {"n_samples": 3, "random_state": rng.randrange(100)})]
    envs = ["rng"] + (["stderr"] if p.get("verbose") else [])
    # re-parameterisation between two fits: the same object is pointed at ANOTHER descriptor
    # set of another size (weights given normalised, as the constructor would leave them)
    n2 = rng.randint(12, 30)
    D2 = {"kind": "gauss", "shape": [n2, d], "seed": _seed(rng)}
    # (the grid of the following fit is then taken from the NEW descriptors: a grid unrelated to
    # the descriptors is outside every statement - the localisation search of the unchanged
    # tree does not terminate on it)
    g2 = {"X": b.ref({"kind": "rows", "base": _strip(D2), "idx": sorted(rng.sample(range(n2), rng.randint(4, 7)))}, "grid")}
    alts = [{"descriptors": b.ref(D2, "descriptors"), "weights": b.ref(b.w(n2, "normalized"), "weights"), "__fit__": g2},
            {"descriptors": b.ref(D2, "descriptors"), "weights": b.ref(b.w(n2, "normalized"), "weights"), "__fit__": g2},
            ]
    if "fpoints" in p:
        # (with fspread > 0 the constructor itself overwrites fpoints: set_params and a fresh
        # construction then legitimately differ)
        alts.append({"fpoints": rng.choice([0.2, 0.4])})
    return dict(params=p, fitA=fitA, fitB=fitB, reads=reads, envs=envs, repeatable=True, fit_transform=False, alts=alts)


def subj_qs(b, kind, pattern):
    rng = b.rng
    d = rng.randint(1, 3)
    nA, nB = rng.randint(5, 14), rng.randint(5, 14)
    p = {}
    if rng.random() < 0.6:
        nB = nA  # cut-offs are per point: keep the count
        p["dist_cutoff_sq"] = b.ref({"kind": "positive", "shape": [nA, 1], "seed": _seed(rng), "squeeze": True}, "cutoffs")
        if rng.random() < 0.6:
            p["scale"] = rng.choice([0.5, 2.0, 3.0])
    else:
        p["gabriel_shell"] = rng.randint(1, 3)
    if rng.random() < 0.25:
        p["metric_params"] = {"$dict": {"cell_length": {"$cell": [5.0] * d}}}
    XA, XB = b.X(nA, d, ["gauss", "uniform", "clusters"]), b.X(nB, d, ["gauss", "uniform"])
    fitA = {"X": b.ref(XA, "data"), "samples_weight": b.ref({"kind": "gauss", "shape": [nA, 1], "seed": _seed(rng), "squeeze": True}, "weights")}
    fitB = {"X": b.ref(XB, "data"), "samples_weight": b.ref({"kind": "gauss", "shape": [nB, 1], "seed": _seed(rng), "squeeze": True}, "weights")}
    return dict(params=p, fitA=fitA, fitB=fitB, reads=[], envs=["rng", "stderr"], repeatable=True, fit_transform=False)


SUBJECTS = {k: subj_selector for k in SELECTORS}
SUBJECTS.update(
    {
        "DirectionalConvexHull": subj_dch,
        "PCovR": subj_pcovr,
        "KernelPCovR": subj_kpcovr,
        "StandardFlexibleScaler": subj_scaler,
        "KernelNormalizer": subj_knorm,
        "SparseKernelCenterer": subj_skc,
        "Ridge2FoldCV": subj_ridge,
        "OrthogonalRegression": subj_orth,
        "SparseKDE": subj_kde,
        "QuickShift": subj_qs,
    }
)


def _reads_ops(name, s, fit_args, b, env=None):
    ops = []
    xkey = s.get("xkey", "X")
    ykey = s.get("ykey", "y")
    for i, (meth, args) in enumerate(s["reads"]):
        a = {}
        for k, v in args.items():
            if v == "$LASTX" or v == "$LASTK":
                a[k] = fit_args[xkey]
            elif v == "$LASTY":
                if ykey in fit_args:
                    a[k] = fit_args[ykey]
            else:
                a[k] = v
        ops.append({"op": "CALL", "obj": name, "method": meth, "args": a, "tag": f"{meth}#{i}", "env": env})
    return ops


def _vary_param_forms(rng, params):
    """Swarm over argument forms: a plain numeric hyper-parameter is sometimes given as a
    numpy scalar, and an optional one is sometimes left at its default."""
    for k in list(params):
        v = params[k]
        if isinstance(v, bool) or isinstance(v, dict) or v is None or isinstance(v, (list, str)):
            continue
        r = rng.random()
        if isinstance(v, int) and r < 0.04:
            params[k] = {"$npint": v, "dtype": rng.choice(["int64", "int32", "intp"])}
        elif isinstance(v, float) and r < 0.04:
            params[k] = {"$npfloat": v, "dtype": "float64"}
    if rng.random() < 0.12:
        opt = [k for k, v in params.items() if not isinstance(v, dict) and k not in ("score_threshold_type", "random_state")]
        if opt:
            k = rng.choice(opt)
            del params[k]
            if k == "score_threshold":
                params.pop("score_threshold_type", None)


def gen_class_trace(b, kind, pattern):
    rng = b.rng
    s = SUBJECTS[kind](b, kind, pattern)
    _vary_param_forms(rng, s["params"])
    ops = b.ops
    allow = list(s["envs"])
    if pattern == "refit" and rng.random() < 0.2:
        # the caller reuses its buffers: fit, overwrite the same arrays in place, fit again
        fa = s["fitB"]
        ops.append({"op": "NEW", "obj": "e0", "kind": kind, "params": s["params"]})
        ops.append({"op": "FIT", "obj": "e0", "args": fa, "env": b.env(kind, s["params"], allow)})
        if rng.random() < 0.5:
            ops.extend(_reads_ops("e0", s, fa, b)[:2])
        xkey = s.get("xkey", "X")
        hn = fa[xkey]["$h"]
        spec = b.heap[hn]
        if spec.get("storage") in ("readonly", "memmap"):
            spec["storage"] = "C"
        if "shape" in spec and spec.get("kind") in D.KINDS:
            rec = {k: v for k, v in _strip(spec).items()}
            rec["seed"] = _seed(rng)
            ops.append({"op": "MUTATE", "h": hn, "recipe": rec})
        ops.append({"op": "FIT", "obj": "e0", "args": fa, "env": b.env(kind, s["params"], allow)})
        ops.extend(_reads_ops("e0", s, fa, b))
    elif pattern == "refit":
        ops.append({"op": "NEW", "obj": "e0", "kind": kind, "params": s["params"]})
        ops.append({"op": "FIT", "obj": "e0", "args": s["fitA"], "env": b.env(kind, s["params"], allow)})
        if rng.random() < 0.5:
            ops.extend(_reads_ops("e0", s, s["fitA"], b)[:2])  # populate lazy caches
        if rng.random() < 0.1:
            ops.append({"op": "RESTART", "obj": "e0"})
        fit2 = s["fitB"]
        if s.get("alts") and rng.random() < 0.3:
            # the caller re-parameterises the fitted estimator before fitting it again
            patch = dict(rng.choice(s["alts"]))
            if rng.random() < 0.25 and len(s["alts"]) > 1:
                patch.update(rng.choice(s["alts"]))
            fit2 = patch.pop("__fit__", fit2)  # data that goes with the new parameters
            ops.append({"op": "SET", "obj": "e0", "params": patch, "how": "setattr" if rng.random() < 0.2 else "set_params"})
        ops.append({"op": "FIT", "obj": "e0", "args": fit2, "env": b.env(kind, s["params"], allow)})
        ops.extend(_reads_ops("e0", s, fit2, b))
        if rng.random() < 0.25 and fit2 is s["fitB"]:
            # three-step history: back to A
            ops.append({"op": "FIT", "obj": "e0", "args": s["fitA"], "env": b.env(kind, s["params"], allow)})
    elif pattern == "single":
        ops.append({"op": "NEW", "obj": "e0", "kind": kind, "params": s["params"]})
        if s.get("fit_transform") and rng.random() < 0.5:
            a = dict(s["fitB"])
            if not s.get("ft_weight"):
                a.pop("sample_weight", None)
            ops.append({"op": "CALL", "obj": "e0", "method": "fit_transform", "args": a, "env": b.env(kind, s["params"], allow)})
        else:
            ops.append({"op": "FIT", "obj": "e0", "args": s["fitB"], "env": b.env(kind, s["params"], allow)})
        ops.extend(_reads_ops("e0", s, s["fitB"], b))
    elif pattern == "interleave":
        # one fitted object, its reads, then unrelated activity in the same process (the same
        # reads again, another object of the same class constructed/fitted/read on other data
        # with other parameters, a pickle round trip), then the same reads again
        ops.append({"op": "NEW", "obj": "e0", "kind": kind, "params": s["params"]})
        ops.append({"op": "FIT", "obj": "e0", "args": s["fitB"], "env": b.env(kind, s["params"], allow)})
        reads = _reads_ops("e0", s, s["fitB"], b)
        for o in reads:
            o["env"] = {"rng": {"seed": _seed(rng)}}
        ops.extend(reads)
        ops.append({"op": "SNAP", "obj": "e0"})
        between = rng.choice(["reads_only", "other_object", "other_object", "restart", "caller_overwrites_fit_arrays"])
        fit_names = set()
        if between == "caller_overwrites_fit_arrays":
            # after fit returned, the caller reuses the buffers it passed to fit; reads whose
            # own arguments are untouched must not change (the model may not alias them)
            for v in s["fitB"].values():
                if isinstance(v, dict) and "$h" in v:
                    spec = b.heap[v["$h"]]
                    if spec.get("storage") in ("readonly", "memmap"):
                        spec["storage"] = "C"
                    if "shape" in spec and spec.get("kind") in D.KINDS:
                        rec = dict(_strip(spec))
                        rec["seed"] = _seed(rng)
                    else:
                        a = D.make_array(spec)
                        if a.dtype.kind != "f":
                            continue
                        rec = {"kind": "gauss", "shape": list(a.shape) if a.ndim == 2 else [a.shape[0], 1], "seed": _seed(rng), "squeeze": a.ndim == 1}
                    fit_names.add(v["$h"])
                    ops.append({"op": "MUTATE", "h": v["$h"], "recipe": rec})
        if between == "other_object":
            s2 = SUBJECTS[kind](b, kind, "single")
            ops.append({"op": "NEW", "obj": "e1", "kind": kind, "params": s2["params"]})
            ops.append({"op": "FIT", "obj": "e1", "args": s2["fitA"], "env": b.env(kind, s2["params"], allow)})
            ops.extend(_reads_ops("e1", s2, s2["fitA"], b)[:3])
        elif between == "restart":
            ops.append({"op": "RESTART", "obj": "e0"})
        for o in reads:
            if fit_names and fit_names & set(PurityWorld.arg_names(None, o["args"])):
                continue  # this read's own argument was overwritten: a different input
            o2 = copy.deepcopy(o)
            o2["again"] = between
            o2["env"] = {"rng": {"seed": _seed(rng)}}
            ops.append(o2)
        ops.append({"op": "CHECKSNAP", "obj": "e0", "between": between})
    elif pattern == "repeat":
        other_between = rng.random() < 0.35
        for li in range(2):
            nm = f"e{li}"
            if li == 1 and other_between:
                # between the two repetitions another object of the class is constructed, fitted
                # and read on other data with other parameters (state shared across objects -
                # class attributes, module-level caches - would leak into the repetition)
                s2 = SUBJECTS[kind](b, kind, "single")
                ops.append({"op": "NEW", "obj": "e9", "kind": kind, "params": s2["params"]})
                if kind in ("QuickShift", "SparseKDE") and "metric_params" not in s2["params"] and "metric_params" not in s["params"]:
                    # the caller edits the (default) dict-valued hyper-parameter of THAT object
                    # in place (obj.metric_params["cell_length"] = <a cell of the data's
                    # dimension>): no other object, existing or future, may follow
                    xk = s.get("xkey", "X")
                    spec = b.heap.get(s["fitB"][xk]["$h"], {}) if isinstance(s["fitB"].get(xk), dict) else {}
                    dim = None
                    if "shape" in spec:
                        dim = spec["shape"][1]
                    elif "base" in spec and "shape" in spec["base"]:
                        dim = spec["base"]["shape"][1]
                    if dim:
                        ops.append({"op": "POKE", "obj": "e9", "param": "metric_params", "key": "cell_length", "value": {"$cell": [rng.choice([1.5, 3.0, 7.0])] * dim}})
                ops.append({"op": "FIT", "obj": "e9", "args": s2["fitA"], "env": {"rng": {"seed": _seed(rng)}}})
                ops.extend(_reads_ops("e9", s2, s2["fitA"], b)[:3])
            ops.append({"op": "NEW", "obj": nm, "kind": kind, "params": s["params"], "lane": 0 if s["repeatable"] else None})
            env = b.env(kind, s["params"], [e for e in allow if e != "rng_always"] + ["rng"] + ["clock", "arpack", "joblib"])
            if not b.faults:
                env = {"rng": {"seed": _seed(rng)}}
            ops.append({"op": "FIT", "obj": nm, "args": s["fitB"], "env": env})
            # the reads are repeated under another ambient RNG state as well
            for o in _reads_ops(nm, s, s["fitB"], b):
                o["env"] = {"rng": {"seed": _seed(rng)}}
                ops.append(o)
    elif pattern == "fault":
        ops.append({"op": "NEW", "obj": "e0", "kind": kind, "params": s["params"]})
        if rng.random() < 0.5:
            ops.append({"op": "FIT", "obj": "e0", "args": s["fitA"], "env": None})
        ops.append({"op": "FIT", "obj": "e0", "args": s["fitB"], "env": b.env(kind, s["params"], allow + ["interrupt"])})
        for o in _reads_ops("e0", s, s["fitB"], b):
            o["env"] = b.env(kind, s["params"], ["interrupt"]) if rng.random() < 0.4 else None
            ops.append(o)
        if rng.random() < 0.5:
            # after the crash(es) the caller simply fits the object again
            fa = s["fitA"] if rng.random() < 0.5 else s["fitB"]
            ops.append({"op": "FIT", "obj": "e0", "args": fa, "env": b.env(kind, s["params"], allow)})
            ops.extend(_reads_ops("e0", s, fa, b))
    return s


# ----------------------------------------------------------------------------- functions


def gen_fn_trace(b):
    rng = b.rng
    fn = rng.choice(list(FUNCS) + ["periodic_pairwise_euclidean_distances"] * 2 + ["pointwise_local_reconstruction_error", "local_reconstruction_error"])
    ops = b.ops
    allow = ["rng"]
    n = rng.randint(8, 18)
    if "reconstruction" in fn:
        mX, mY = rng.randint(1, 5), rng.randint(1, 5)
        XR, YR = b.X(n, mX, ["gauss", "uniform", "scaled"]), b.X(n, mY, ["gauss", "uniform"])
        a = {"X": b.ref(XR, "data"), "Y": b.ref(YR, "data")}
        r = rng.random()
        ntr = n // 2
        if r < 0.5:
            tr = b.add({"kind": "index", "n": n, "k": ntr, "seed": _seed(rng), "negative": rng.random() < 0.2}, "index_list")
            a["train_idx"] = {"$h": tr} if rng.random() < 0.5 else {"$pylist": tr}
            if rng.random() < 0.5:
                te = b.add({"kind": "index", "n": n, "k": rng.randint(2, n // 2), "seed": _seed(rng), "negative": rng.random() < 0.2}, "index_list")
                a["test_idx"] = {"$h": te} if rng.random() < 0.5 else {"$pylist": te}
        elif r < 0.65:
            # only the test set is given; the training set is its complement
            kte = rng.randint(2, n // 2)
            te = b.add({"kind": "index", "n": n, "k": kte, "seed": _seed(rng), "negative": rng.random() < 0.3}, "index_list")
            a["test_idx"] = {"$h": te} if rng.random() < 0.6 else {"$pylist": te}
            ntr = n - kte
        else:
            ntr = n // 2
        if "local" in fn:
            a["n_local_points"] = rng.randint(2, max(2, min(ntr, 6)))
            if rng.random() < 0.5:
                a["n_jobs"] = rng.choice([1, 2, 3])
            allow.append("joblib")
        if rng.random() < 0.35:
            a["estimator"] = {"$est": ["Ridge2FoldCV", {"alphas": [1e-6, 1e-3, 0.1], "alpha_type": "relative", "regularization_method": rng.choice(["cutoff", "tikhonov"]), "random_state": 7, "shuffle": True, "n_jobs": rng.choice([None, 1, 2])}]}
            allow.append("joblib")
        elif rng.random() < 0.3:
            a["estimator"] = {"$est": ["Ridge", {"alpha": 1e-6, "fit_intercept": False}]}
        if rng.random() < 0.3:
            a["scaler"] = {"$est": ["StandardFlexibleScaler", {"column_wise": rng.random() < 0.5}]}
    elif fn in ("local_prediction_rigidity", "componentwise_prediction_rigidity"):
        d = rng.randint(2, 5)
        tr = [b.add(b.X(rng.randint(1, 4), d, ["gauss", "uniform"]), "structure") for _ in range(rng.randint(3, 6))]
        te = [b.add(b.X(rng.randint(1, 4), d, ["gauss", "uniform"]), "structure") for _ in range(rng.randint(1, 4))]
        a = {"X_train": {"$hl": tr}, "X_test": {"$hl": te}, "alpha": 10 ** rng.uniform(-6, 0)}
        if rng.random() < 0.35:
            # structures with the same number of environments handed over as ONE regular 3-D
            # float array (n_structures, n_environments, n_features) instead of a list
            ne = rng.randint(1, 4)
            a["X_test"] = b.ref({"kind": "stack3", "shape": [rng.randint(1, 4), ne, d], "seed": _seed(rng)}, "structures")
            b.heap[a["X_test"]["$h"]]["storage"] = rng.choice(["C", "C", "readonly"])
            if rng.random() < 0.5:
                a["X_train"] = b.ref({"kind": "stack3", "shape": [rng.randint(3, 6), rng.randint(1, 4), d], "seed": _seed(rng)}, "structures")
                b.heap[a["X_train"]["$h"]]["storage"] = rng.choice(["C", "C", "readonly"])
        if fn.startswith("component"):
            k = rng.randint(1, d)
            dims = [d // k] * k
            dims[-1] += d - sum(dims)
            a["comp_dims"] = {"$h": b.add({"dtype": "int64", "shape": [k], "val": dims}, "comp_dims", rng.choice(["C", "readonly"]))}
    elif fn == "periodic_pairwise_euclidean_distances":
        d = rng.randint(1, 4)
        a = {"X": b.ref(b.X(rng.randint(1, 8), d, ["gauss", "uniform", "offset"]), "data")}
        if rng.random() < 0.6:
            a["Y"] = b.ref(b.X(rng.randint(1, 8), d, ["gauss", "uniform"]), "data")
        if rng.random() < 0.7:
            a["cell_length"] = b.ref({"kind": "positive", "shape": [d, 1], "seed": _seed(rng), "squeeze": True}, "cell") if rng.random() < 0.6 else {"$pylist": b.add({"dtype": "int64", "shape": [d], "val": [rng.randint(1, 4) for _ in range(d)]}, "cell", "C")}
        a["squared"] = rng.random() < 0.5
    elif fn == "pairwise_mahalanobis_distances":
        d = rng.randint(1, 4)
        k = rng.randint(1, 3)
        single = rng.random() < 0.3
        a = {
            "X": b.ref(b.X(rng.randint(1, 7), d, ["gauss", "uniform"]), "data"),
            "Y": b.ref(b.X(rng.randint(1, 7), d, ["gauss", "uniform"]), "data"),
            "cov_inv": b.ref({"kind": "spd_stack", "k": k, "d": d, "seed": _seed(rng), "single": single}, "precision"),
            "squared": rng.random() < 0.5,
        }
        if rng.random() < 0.5:
            a["cell_length"] = b.ref({"kind": "positive", "shape": [d, 1], "seed": _seed(rng), "squeeze": True}, "cell")
    elif fn == "X_orthogonalizer":
        nn, m = rng.randint(3, 10), rng.randint(2, 7)
        a = {"x1": b.ref(b.X(nn, m, ANYK), "data"), "copy": True}
        if rng.random() < 0.6:
            a["c"] = rng.randrange(m)
        else:
            a["x2"] = b.ref(b.X(nn, rng.randint(1, 3), ["gauss"]), "data")
    elif fn == "Y_feature_orthogonalizer":
        nn = rng.randint(3, 10)
        a = {"y": b.ref(b.X(nn, rng.randint(1, 3), ["gauss"]), "target"), "X": b.ref(b.X(nn, rng.randint(1, 4), ANYK), "data")}
        if rng.random() < 0.5:
            a["copy"] = True
    elif fn == "Y_sample_orthogonalizer":
        nn, m, pp = rng.randint(3, 10), rng.randint(1, 5), rng.randint(1, 3)
        nr = rng.randint(1, 5)
        a = {
            "y": b.ref(b.X(nn, pp, ["gauss"]), "target"),
            "X": b.ref(b.X(nn, m, ["gauss"]), "data"),
            "y_ref": b.ref(b.X(nr, pp, ["gauss"]), "target"),
            "X_ref": b.ref(b.X(nr, m, ANYK), "data"),
        }
        if rng.random() < 0.5:
            a["copy"] = True
    elif fn in ("pcovr_covariance", "pcovr_kernel"):
        nn, m, pp = rng.randint(3, 10), rng.randint(2, 6), rng.randint(1, 3)
        a = {"mixing": rng.choice([0.0, 0.3, 0.5, 1.0]), "X": b.ref(b.X(nn, m, ANYK), "data"), "Y": b.ref(b.X(nn, pp, ["gauss"]), "target")}
        if fn == "pcovr_covariance" and rng.random() < 0.4:
            a["rank"] = rng.randint(1, min(nn, m))
        if fn == "pcovr_covariance" and rng.random() < 0.3:
            a["return_isqrt"] = True
    elif fn in ("effdim", "oas"):
        d = rng.randint(1, 4)
        cov = b.ref({"kind": "spd_stack", "k": 1, "d": d, "seed": _seed(rng), "single": True}, "covariance")
        a = {"cov": cov} if fn == "effdim" else {"cov": cov, "n": float(rng.randint(3, 30)), "D": d}
    elif fn in ("check_lr_fit", "check_krr_fit"):
        nn, m = rng.randint(4, 10), rng.randint(1, 4)
        XR = b.X(nn, m, ["gauss", "uniform"])
        yr = b.y_of(XR, rng.randint(1, 2), squeeze=False)
        if fn == "check_lr_fit":
            a = {"regressor": {"$est": ["Ridge", {"alpha": 1e-3}]}, "X": b.ref(XR, "data"), "y": b.ref(yr, "target")}
        else:
            a = {
                "regressor": {"$est": ["KernelRidge", {"alpha": 1e-3, "kernel": "linear"}]},
                "K": b.ref({"kind": "gram", "base": _strip(XR)}, "kernel"),
                "X": b.ref(XR, "data"),
                "y": b.ref(yr, "target"),
            }
    elif fn == "train_test_split":
        nn = rng.randint(6, 14)
        a = {"__pos__": [b.ref(b.X(nn, rng.randint(1, 4), ["gauss"]), "data"), b.ref(b.X(nn, 1, ["gauss"]), "target")]}
        a["train_size"] = rng.choice([0.5, 0.7])
        a["test_size"] = rng.choice([0.5, 0.3, 0.6])
        if a["train_size"] + a["test_size"] > 1:
            a["train_test_overlap"] = True
        a["random_state"] = rng.randrange(100)
    else:
        raise ValueError(fn)
    for li in range(2):
        if li == 1 and fn == "periodic_pairwise_euclidean_distances" and "Y" not in a and isinstance(a.get("cell_length"), dict) and "$h" in a["cell_length"] and rng.random() < 0.6:
            # between the two repetitions an estimator that uses the same metric is fitted on
            # the same points with the same cell (it post-processes the distance matrix it is
            # given in place): the function must still return what it returned before
            kind = rng.choice(["QuickShift", "SparseKDE"])
            a["squared"] = True  # the estimators' own metric call
            npts = b.heap[a["X"]["$h"]]["shape"][0] if "shape" in b.heap[a["X"]["$h"]] else None
            mp = {"$dict": {"cell_length": {"$h": a["cell_length"]["$h"]}}}
            if kind == "QuickShift" and npts and npts >= 3:
                ops.append({"op": "NEW", "obj": "q0", "kind": "QuickShift", "params": {"gabriel_shell": 2, "metric_params": mp}})
                ops.append({"op": "FIT", "obj": "q0", "args": {"X": a["X"], "samples_weight": b.ref({"kind": "gauss", "shape": [npts, 1], "seed": _seed(rng), "squeeze": True}, "weights")}, "env": None})
            elif npts and npts >= 4:
                wts = b.ref({"kind": "weights", "n": npts, "mode": "normalized", "seed": _seed(rng)}, "weights")
                ops.append({"op": "NEW", "obj": "q0", "kind": "SparseKDE", "params": {"descriptors": a["X"], "weights": wts, "kernel": "gaussian", "fpoints": 0.5, "metric_params": mp}})
                ops.append({"op": "FIT", "obj": "q0", "args": {"X": a["X"]}, "env": None})
        ops.append({"op": "FN", "fn": fn, "args": a, "lane": 0, "env": b.env(fn, None, allow + (["interrupt"] if (b.faults and li == 1 and rng.random() < 0.3) else []))})
        if b.faults and li == 1 and "local" in fn and "estimator" in a and rng.random() < 0.5:
            # a dense solver fails inside one of the local fits (LinAlgError out of the call)
            ops[-1]["env"] = {"rng": {"seed": _seed(rng)}, "linalg": {"fail_at": rng.randint(1, 12)}}
        if ops[-1]["env"] and (ops[-1]["env"].get("interrupt") or ops[-1]["env"].get("linalg")):
            ops[-1]["lane"] = None
    return fn


# ----------------------------------------------------------------------------- top level


def gen_c09(rng, idx, tier, faults):
    b = Builder(rng, faults)
    r = rng.random()
    if r < 0.16:
        what = gen_fn_trace(b)
        pattern = "fn"
    else:
        kind = rng.choice(ALL_CLASSES)
        if faults and rng.random() < 0.08:
            kind = "sample.VoronoiFPS"  # the only consumer of the wall clock
        r2 = rng.random()
        if faults and rng.random() < 0.05:
            # an ARPACK call inside fit does not converge (cooperative fault point), then the
            # object is used further: parameters must be untouched, a later fit owes the
            # fresh state
            kind = rng.choice(["PCovR", "PCovR", "KernelPCovR", "KernelPCovR", "feature.PCovCUR", "sample.PCovCUR", "feature.CUR", "sample.CUR"])
            b.arpack_fail = True
            r2 = 0.7  # pattern "fault"
        elif faults and rng.random() < 0.04:
            # a dense LAPACK-backed call made by the library does not converge (LinAlgError):
            # either the operation fails with it or a documented fallback takes over - whose
            # result is then held to the same comparisons as any other successful fit
            kind = rng.choice(["PCovR", "PCovR", "PCovR", "KernelPCovR", "OrthogonalRegression", "Ridge2FoldCV", "SparseKernelCenterer"])
            b.linalg_fail = True
            r2 = 0.7  # pattern "fault"
        if faults:
            pattern = "refit" if r2 < 0.35 else "repeat" if r2 < 0.55 else "fault" if r2 < 0.8 else "interleave" if r2 < 0.9 else "single"
        else:
            pattern = "refit" if r2 < 0.45 else "repeat" if r2 < 0.65 else "interleave" if r2 < 0.82 else "single"
        gen_class_trace(b, kind, pattern)
        what = kind
    return {"heap": b.heap, "ops": b.ops, "pattern": pattern, "subject": what}


def reductions(trace):
    ops = trace["ops"]

    def used_heap(t):
        used = set()

        def walk(v):
            if isinstance(v, dict):
                for k in ("$h", "$pylist"):
                    if k in v:
                        used.add(v[k])
                if "$hl" in v:
                    used.update(v["$hl"])
                for x in v.values():
                    walk(x)
            elif isinstance(v, list):
                for x in v:
                    walk(x)

        for o in t["ops"]:
            walk(o.get("params"))
            walk(o.get("args"))
        t["heap"] = {k: v for k, v in t["heap"].items() if k in used}
        return t

    objs = [o["obj"] for o in ops if o["op"] == "NEW"]
    if len(objs) > 1:
        for nm in reversed(objs):
            t = copy.deepcopy(trace)
            t["ops"] = [o for o in t["ops"] if o.get("obj") != nm]
            yield used_heap(t)
    for i in range(len(ops) - 1, -1, -1):
        if ops[i]["op"] == "NEW":
            continue
        t = copy.deepcopy(trace)
        del t["ops"][i]
        yield used_heap(t)
    for i, o in enumerate(ops):
        if o.get("env"):
            t = copy.deepcopy(trace)
            t["ops"][i]["env"] = None
            yield t
            if len(o["env"]) > 1:
                for k in o["env"]:
                    t = copy.deepcopy(trace)
                    del t["ops"][i]["env"][k]
                    yield t
    for k, spec in trace["heap"].items():
        if spec.get("storage", "C") != "C":
            t = copy.deepcopy(trace)
            t["heap"][k]["storage"] = "C"
            yield t
    for i, o in enumerate(ops):
        if o["op"] == "NEW":
            for k in list(o["params"]):
                t = copy.deepcopy(trace)
                del t["ops"][i]["params"][k]
                # the same parameter dict may be shared by lanes
                for o2 in t["ops"]:
                    if o2["op"] == "NEW" and o2["kind"] == o["kind"] and k in o2["params"]:
                        del o2["params"][k]
                yield used_heap(t)
        elif o["op"] == "SET":
            if len(o["params"]) > 1:
                for k in list(o["params"]):
                    t = copy.deepcopy(trace)
                    del t["ops"][i]["params"][k]
                    yield used_heap(t)
        elif o["op"] in ("FIT", "CALL", "FN"):
            for k in list(o["args"]):
                if k in ("X", "K", "Knm", "Kmm", "__pos__", "Y", "x1"):
                    continue
                t = copy.deepcopy(trace)
                del t["ops"][i]["args"][k]
                yield used_heap(t)


class PurityScenario:
    pid = "C09"

    def preload(self):
        from . import purity  # noqa: F401
        from sklearn.kernel_ridge import KernelRidge  # noqa: F401

    def anchor_files(self):
        return [
            "_selection.py", "sample_selection/_voronoi_fps.py", "sample_selection/_base.py", "neighbors/_sparsekde.py",
            "clustering/_quick_shift.py", "preprocessing/_data.py", "decomposition/_pcovr.py", "decomposition/_kernel_pcovr.py",
            "linear_model/_ridge.py", "linear_model/_base.py", "metrics/_reconstruction_measures.py", "metrics/_prediction_rigidities.py",
            "metrics/_pairwise.py", "utils/_orthogonalizers.py", "utils/_pcovr_utils.py", "model_selection/_split.py",
        ]

    def plan(self, tier):
        q, f = {"quick": (2500, 2500), "thorough": (150000, 150000)}[tier]
        return {"quiet": q, "faults": f, "timeout": 120.0, "budget": 60.0 if tier == "quick" else 3600.0, "slice": 10}

    def generate(self, rng, idx, tier, faults):
        tr = gen_c09(rng, idx, tier, faults)
        tr["property"] = "C09"
        return tr

    def execute(self, trace):
        return PurityWorld(trace).run()

    def reductions(self, trace):
        return reductions(trace)

    def describe(self, trace, res):
        return {
            "subject": trace.get("subject"),
            "pattern": trace.get("pattern"),
            "heap": {k: {kk: vv for kk, vv in v.items() if kk in ("kind", "shape", "role", "storage")} for k, v in trace["heap"].items()},
            "ops": [{k: v for k, v in o.items()} for o in trace["ops"][:8]],
            "faults_fired": res["fired"],
            "probes": res["probes"],
            "digest": res["digest"],
        }

    def rule(self):
        return (
            "Each run is one explicit trace: a caller heap (arrays with roles data/target/weights/kernel/cutoffs/index "
            "lists/..., each stored C, F, as a strided view in a canary-guarded buffer, read-only, or as a read-only "
            "memmap) and NEW/FIT/CALL/FN/RESTART operations on one public estimator class or function with per-operation "
            "environment scripts (ambient RNG, clock, ARPACK start vectors, joblib schedule, stderr fault, interruption "
            "at a line). Patterns: two- and three-step refit histories vs a fresh twin, single fit with reads and "
            "fit_transform, the same call repeated under two environments, functions, fault runs. Signature = (subject, "
            "operation sequence, storage kinds, fault kinds fired, probes); non-trivial = at least one operation "
            "completed successfully."
        )

    def required_probes(self, tier):
        return ["fault_landed_inside_fit", "crash_points_enumerated_for_a_call"]

    def real_components(self):
        return ["every public estimator and function of skmatter (unmodified, from /repo/src)", "numpy/scipy/scikit-learn/joblib/tqdm", "pickle"]

    def stub_components(self):
        return [
            "caller heap with byte snapshots and storage kinds",
            "wall clock, ambient RNG, ARPACK start vectors",
            "joblib backend (incl. nested calls)",
            "sys.stderr (fault-injecting)",
            "sys.settrace line-level interruption",
        ]

    def assumptions(self):
        return [
            "numerical equality to rounding: rtol 1e-7 (refit vs twin, same arithmetic) / 1e-6 (repetition under another environment), atol 1e-9*scale",
            "state after an injected fault inside fit is only held to heap integrity and parameter stability (object retired)",
            "estimator-valued hyper-parameters are compared through get_params(deep=True), not through their fitted state",
        ]
