"""Trace generation, reductions and scenario glue for the selector machine."""

import copy
import os

import numpy as np

from . import data as D
from .selectors import SEL, SelectorWorld
from .util import subseed

ALL_CLASSES = list(SEL)
CLOCK_FAULTS = ["frozen", "coarse", "backward", "jump", "stall", "force", "raw"]


def _seed(rng):
    return rng.randrange(1, 2**31 - 1)


def gen_X(rng, kinds, nlo, nhi, dlo, dhi):
    n = rng.randint(nlo, nhi)
    d = rng.randint(dlo, dhi)
    return {"kind": rng.choice(kinds), "shape": [n, d], "seed": _seed(rng), "storage": "C"}


def gen_y(rng, n):
    return {"kind": "gauss", "shape": [n, 1], "seed": _seed(rng), "squeeze": True, "storage": "C"}


def n_form(rng, N, n_from, allow_none=True):
    """Express the count N as int / float / None (when it resolves to exactly N)."""
    forms = ["int", "int", "int"]
    f = (N + 0.5) / n_from
    if f <= 1.0 and int(n_from * f) == N:
        forms.append("float")
    elif N == n_from:
        forms.append("one")
    if allow_none and n_from // 2 == N:
        forms += ["None", "None"]
    # fractions whose product with the number of candidates is (nearly) an integer, in the
    # caller's own number type: an exact rational, a single-precision numpy scalar, a plain
    # float (each only where the documented int(n * fraction) gives exactly N)
    if 0 < N <= n_from:
        forms.append("fraction")
        if int(n_from * np.float32(N / n_from)) == N:
            forms.append("f32")
        if int(n_from * (N / n_from)) == N:
            forms.append("edge")
    c = rng.choice(forms)
    if c == "fraction":
        return {"$fraction": [N, n_from]}
    if c == "f32":
        return {"$npfloat": N / n_from, "dtype": "float32"}
    if c == "edge":
        return N / n_from
    if c == "int":
        if rng.random() < 0.12:
            return {"$npint": N, "dtype": rng.choice(["int64", "int32", "intp"])}  # numpy integer scalar
        return N
    if c == "float":
        if rng.random() < 0.1:
            return {"$npfloat": f, "dtype": "float64"}
        return f
    if c == "one":
        return 1.0
    return None


def clock_fault(rng, n_trial):
    mode = rng.choice(CLOCK_FAULTS)
    spec = {"mode": mode, "seed": _seed(rng)}
    if mode == "coarse":
        spec["q"] = rng.choice([1e-6, 1e-5, 1e-3, 1.0])
    elif mode in ("backward", "jump", "stall"):
        spec["at"] = rng.randint(1, 2 + 14 * max(1, n_trial))
    elif mode == "force":
        spec["bits"] = [rng.randint(0, 1) for _ in range(7)]
        spec["n_trial"] = n_trial
    elif mode == "raw":
        k = rng.randint(2, 2 + 14 * max(1, n_trial))
        spec["deltas"] = [rng.choice([0.0, 1e-9, 1e-6, 1e-3, 1.0, -1e-3, 50.0]) for _ in range(k)]
    return spec


def env_fault(rng, fam, params, kinds=None):
    """A per-fit environment script with a random subset of fault kinds (swarm)."""
    env = {}
    kinds = kinds or ["clock", "arpack", "rng", "stderr", "linalg"]
    if "clock" in kinds and fam == "voronoi" and rng.random() < 0.8:
        env["clock"] = clock_fault(rng, int(params.get("n_trial_calculation", 4) or 4))
    if "arpack" in kinds and fam == "cur" and rng.random() < 0.08:
        # the truncated SVD of CUR does not converge (no start vector to vary: it is seeded)
        env["arpack"] = {"mode": "dense", "seed": _seed(rng), "fail_at": rng.randint(1, 4)}
    if "arpack" in kinds and fam == "pcovcur" and rng.random() < 0.7:
        env["arpack"] = {"mode": rng.choice(["dense", "sparse", "orth", "same"]), "seed": _seed(rng)}
        if rng.random() < 0.08:
            env["arpack"]["fail_at"] = rng.randint(1, 6)  # this ARPACK call does not converge
    if "linalg" in kinds and fam in ("cur", "pcovcur", "pcovfps") and rng.random() < 0.06:
        # a dense LAPACK-backed routine called by skmatter (eigh, pinv, lstsq ...) does not
        # converge: the fit fails with LinAlgError; a later cold fit is judged as usual
        env["linalg"] = {"fail_at": rng.randint(1, 6)}
    if "rng" in kinds and rng.random() < 0.5:
        env["rng"] = {"seed": _seed(rng)}
    if rng.random() < 0.3:
        # the ambient joblib configuration of the caller (parallel_config around the call):
        # several workers, tasks reordered / batched / run on pickled copies like worker
        # processes / executed twice. The selectors of the unchanged tree submit no tasks, so
        # nothing may depend on it.
        env["joblib"] = {"mode": rng.choice(["reorder", "batch", "isolate", "isolate", "twice"]), "seed": _seed(rng),
                         "workers": rng.randint(2, 4), "reorder": rng.random() < 0.7, "batch": rng.randint(2, 4)}
    if "stderr" in kinds and params.get("progress_bar") and rng.random() < 0.6:
        env["stderr"] = {"mode": rng.choice(["eio", "closed", "epipe", "enospc", "none"]), "at": rng.randint(1, 4)}
        if rng.random() < 0.6:
            # slow steps: tqdm's redraw timer (simulated) elapses at (almost) every step, so
            # the bar is redrawn - and the stream fault lands - in the middle of the search
            env["stderr"]["step_dt"] = rng.choice([0.06, 0.25, 0.25, 5.0])
            env["stderr"]["at"] = rng.randint(1, 8)
    return env or None


def quiet_env(rng, fam):
    if fam == "voronoi":
        return {"clock": {"mode": "normal", "seed": _seed(rng)}}
    return None


def gen_read(rng, name, cls):
    info = SEL[cls]
    meths = [("get_support", {}), ("get_support", {"indices": True}), ("get_support", {"indices": True, "ordered": True})]
    if info["fam"] in ("fps", "pcovfps", "voronoi"):
        meths += [("get_distance", {}), ("get_select_distance", {})]
    if info["axis"] == 1:
        meths.append(("transform", {}))
    meths.append(("score", {}))
    m, kw = rng.choice(meths)
    r = {"op": "READ", "obj": name, "method": m, "kwargs": kw}
    if m == "transform" and rng.random() < 0.5:
        # the caller rescales the array transform() returned, in place - new data for the caller
        # by scikit-learn's convention (the unchanged tree returns a fresh array); the selector's
        # own stored columns must not follow
        r["scribble"] = True
    return r


# ----------------------------------------------------------------------------- params


def gen_params(rng, cls, shape, N, pid, faults):
    info = SEL[cls]
    fam = info["fam"]
    n_from = shape[info["axis"]]
    p = {"n_to_select": n_form(rng, N, n_from)}
    if fam in ("fps", "pcovfps", "voronoi"):
        r = rng.random()
        if r < 0.55:
            p["initialize"] = rng.randrange(n_from)
            if rng.random() < 0.1 and pid != "C06":
                p["initialize"] = {"$npint": p["initialize"], "dtype": "int64"}
        elif r < 0.75:
            p["initialize"] = "random"
            r2 = rng.random()
            if r2 < 0.55:
                p["random_state"] = rng.randrange(100)  # else: the documented default (0)
            elif r2 < 0.7:
                p["random_state"] = {"$rs": rng.randrange(100)}  # a RandomState instance
        elif fam == "fps" and pid != "C06":
            k = rng.randint(1, min(N, 4))
            p["initialize"] = rng.sample(range(n_from), k)
            if rng.random() < 0.4:
                p["initialize"] = {"$ndarray": p["initialize"]}
        else:
            p["initialize"] = rng.randrange(n_from)
    if fam in ("pcovfps", "pcovcur"):
        p["mixing"] = rng.choice([0.0, 0.1, 0.5, 0.5, 0.9] + ([1.0] if fam == "pcovcur" else []))
    if fam in ("cur", "pcovcur"):
        kmax = min(shape) - 1
        p["k"] = rng.choice([1, 1, 2, 3]) if kmax >= 3 else 1
        p["k"] = max(1, min(p["k"], kmax))
        if fam == "pcovcur" and p.get("mixing") == 0.0 and pid != "C01":
            p["k"] = 1  # the modified matrix has rank 1 (single target): k > 1 is degenerate
        p["recompute_every"] = rng.choice([0, 1, 1, 2, 3]) if pid == "C01" else rng.choice([0, 1, 1])
        if rng.random() < 0.2:
            p["tolerance"] = rng.choice([1e-10, 1e-14])
    if fam == "voronoi":
        if rng.random() < 0.45:
            p["full_fraction"] = rng.choice([1e-9, 0.01, 0.1, 0.3, 0.5, 0.9, 0.99, 1.0, round(rng.uniform(0.01, 1.0), 3)])
        else:
            p["n_trial_calculation"] = rng.choice([1, 2, 3, 4, 5, 5, 6, 8, 12])
    if rng.random() < (0.25 if faults else 0.08):
        p["progress_bar"] = True
    if pid == "C01" and rng.random() < 0.1:
        p["full"] = True  # documented flag; only legal without a threshold
    return p


def gen_threshold(rng, fam):
    t = rng.choice(["absolute", "relative"])
    if t == "relative":
        v = 10 ** rng.uniform(-3, 0)
    elif fam in ("cur", "pcovcur"):
        v = 10 ** rng.uniform(-3, -0.2)
    else:
        v = 10 ** rng.uniform(-4, 2)
    return {"score_threshold": v, "score_threshold_type": t}


# ----------------------------------------------------------------------------- C01


def gen_c01(rng, idx, tier, faults):
    heap, ops = {}, []
    nobj = 1 if rng.random() < 0.7 else 2
    plans = []
    for o in range(nobj):
        cls = rng.choice(ALL_CLASSES)
        info = SEL[cls]
        fam = info["fam"]
        xs = gen_X(rng, D.KINDS, 2, 24, 2, 12)
        # buffer reuse: the caller overwrites X in place and refits the same object on the
        # same array object (integer-valued callers' arrays are converted by validation)
        reuse = rng.random() < 0.12
        if reuse and rng.random() < 0.4:
            xs["kind"] = "lattice"
            xs["cast"] = "int64"
        if rng.random() < 0.15:
            xs["storage"] = rng.choice(["F", "view"] + ([] if reuse else ["readonly"]))
        if "cast" not in xs and rng.random() < 0.1:
            # the caller's dtype: single precision, or integers for integer-valued data
            xs["cast"] = "int64" if xs["kind"] == "lattice" else "float32"
        elif "cast" not in xs and fam in ("fps", "voronoi") and rng.random() < 0.15:
            # (FPS family only: ARPACK does not terminate on the non-finite matrices the
            # CUR/PCov variants would build from such data - nothing a property speaks about)
            # finite but extreme magnitudes: squared norms overflow to inf (distances become
            # inf/nan) or underflow to zero (every distance is exactly 0)
            xs["scale_pow2"] = rng.choice([520, 600, 1000, -520, -600])
        xn, yn = f"X{o}", None
        heap[xn] = xs
        if info["y"] == "req" or rng.random() < 0.5:
            yn = f"y{o}"
            heap[yn] = gen_y(rng, xs["shape"][0])
        n_from = xs["shape"][info["axis"]]
        N = rng.randint(1, n_from)
        p = gen_params(rng, cls, xs["shape"], N, "C01", faults)
        if rng.random() < 0.4 and not p.get("full"):
            p.update(gen_threshold(rng, fam))
        name = f"e{o}"
        xo, yo = xn, yn
        if rng.random() < 0.3:
            # other data of the same shape, for cold refits of the same object
            xo = f"Z{o}"
            # same shape, or larger in both directions (every integer count valid for X stays
            # valid; None and fractions resolve to OTHER counts, so nothing resolved during an
            # earlier - possibly crashed - fit may survive into the next one)
            grow = (rng.randint(1, 6), rng.randint(1, 6)) if rng.random() < 0.5 else (0, 0)
            zn, zd = xs["shape"][0] + grow[0], xs["shape"][1] + grow[1]
            heap[xo] = dict(gen_X(rng, D.KINDS, zn, zn, zd, zd))
            if yn:
                yo = f"w{o}"
                heap[yo] = gen_y(rng, zn)
        seq = [{"op": "NEW", "obj": name, "cls": cls, "params": p}]
        mk_env = (lambda: env_fault(rng, fam, p)) if faults else (lambda: quiet_env(rng, fam))
        def crash_env():
            e = dict(mk_env() or {})
            e["interrupt"] = {"exc": rng.choice(["KeyboardInterrupt", "MemoryError"]), "at": rng.randint(1, 260)}
            return e

        if faults and rng.random() < 0.1:
            # a fit that crashes at an arbitrary line, then the ordinary cold fit
            seq.append({"op": "FIT", "obj": name, "X": xo, "y": yo, "warm": False, "env": crash_env()})
        seq.append({"op": "FIT", "obj": name, "X": xn, "y": yn, "warm": False, "env": mk_env()})
        curX, curY = xn, yn
        cur = N
        for _ in range(rng.choice([0, 0, 1, 1, 2, 3])):
            r = rng.random()
            if r < 0.12:
                seq.append({"op": "RESTART", "obj": name, "mode": rng.choice(["pickle", "deepcopy"])})
            if r > 0.8:
                # cold refit of the same object, possibly re-parameterised (fewer selections,
                # another starting point): "cold or warm-started" histories
                if r > 0.86:
                    newp = {"n_to_select": n_form(rng, rng.randint(1, max(1, cur)), n_from)}
                    if fam in ("fps", "pcovfps", "voronoi") and rng.random() < 0.5:
                        newp["initialize"] = rng.randrange(n_from)
                    seq.append({"op": "SET", "obj": name, "params": newp})
                    cur = None
                if rng.random() < 0.5:
                    curX, curY = (xo, yo) if curX == xn else (xn, yn)
                elif yn and rng.random() < 0.5:
                    # the same X, other targets (nothing keyed by the data alone may be reused)
                    vn = f"v{o}"
                    if vn not in heap:
                        heap[vn] = gen_y(rng, xs["shape"][0])
                    curX, curY = xn, (vn if curY != vn else yn)
                if reuse and curX == xn:
                    rec = {k: v for k, v in xs.items() if k != "storage"}
                    rec["seed"] = _seed(rng)
                    seq.append({"op": "MUTATE", "h": xn, "recipe": rec})
                if faults and rng.random() < 0.3:
                    # the refit crashes at an arbitrary line and is repeated
                    seq.append({"op": "FIT", "obj": name, "X": curX, "y": curY, "warm": False, "env": crash_env()})
                seq.append({"op": "FIT", "obj": name, "X": curX, "y": curY, "warm": False, "env": mk_env()})
                if cur is None:
                    from .refmodels import resolve_n_to_select

                    v = newp["n_to_select"]
                    if isinstance(v, dict):
                        v = v.get("$npint", v.get("$npfloat"))
                    cur = resolve_n_to_select(v, n_from)
                continue
            if rng.random() < 0.06:
                # a continuation that asks for no more than is already selected: it may be
                # refused, but if it succeeds the selection must have the requested size
                seq.append({"op": "SET", "obj": name, "params": {"n_to_select": n_form(rng, rng.randint(1, cur), n_from)}})
                seq.append({"op": "FIT", "obj": name, "X": curX, "y": curY, "warm": True, "env": mk_env()})
                seq.append({"op": "SET", "obj": name, "params": {"n_to_select": n_form(rng, cur, n_from)}})
                seq.append({"op": "FIT", "obj": name, "X": curX, "y": curY, "warm": False, "env": mk_env()})
                continue
            if cur >= n_from:
                break
            new = rng.randint(cur + 1, n_from)
            if rng.random() < 0.3:
                seq.append(gen_read(rng, name, cls))
            seq.append({"op": "SET", "obj": name, "params": {"n_to_select": n_form(rng, new, n_from)}})
            if faults and rng.random() < 0.06:
                # the continuation crashes at an arbitrary line; the caller falls back to a cold fit
                seq.append({"op": "FIT", "obj": name, "X": curX, "y": curY, "warm": True, "env": crash_env()})
                seq.append({"op": "FIT", "obj": name, "X": curX, "y": curY, "warm": False, "env": mk_env()})
            else:
                seq.append({"op": "FIT", "obj": name, "X": curX, "y": curY, "warm": True, "env": mk_env()})
            cur = new
        if cur is not None and cur < n_from and rng.random() < 0.06:
            # a shallow copy of the fitted selector is continued; the original is read afterwards
            fk = name + "f"
            seq.append({"op": "FORK", "obj": fk, "from": name})
            seq.append({"op": "SET", "obj": fk, "params": {"n_to_select": n_form(rng, rng.randint(cur + 1, n_from), n_from)}})
            seq.append({"op": "FIT", "obj": fk, "X": curX, "y": curY, "warm": True, "env": mk_env()})
            seq.append(gen_read(rng, name, cls))
        if reuse and not any(o["op"] == "MUTATE" for o in seq):
            rec = {k: v for k, v in xs.items() if k != "storage"}
            rec["seed"] = _seed(rng)
            seq.append({"op": "MUTATE", "h": xn, "recipe": rec})
            seq.append({"op": "FIT", "obj": name, "X": xn, "y": yn, "warm": False, "env": mk_env()})
        if rng.random() < 0.3:
            seq.append(gen_read(rng, name, cls))
        if rng.random() < 0.12:
            # a cold refit that fit() rejects before touching anything (impossible n_to_select),
            # the parameter is put back; the selector must still be what its last fit left
            keep = [o for o in seq if o["op"] == "SET" and "n_to_select" in o["params"]]
            good = keep[-1]["params"]["n_to_select"] if keep else p["n_to_select"]
            seq.append({"op": "SET", "obj": name, "params": {"n_to_select": rng.choice([0, -2, 1.5, n_from + 9])}})
            seq.append({"op": "FIT", "obj": name, "X": curX, "y": curY, "warm": False, "env": None, "expect_fail": True, "rejected_refit": True, "untouched": True})
            seq.append({"op": "SET", "obj": name, "params": {"n_to_select": good}})
        if isinstance(p.get("initialize"), dict) and "$ndarray" in p["initialize"] and rng.random() < 0.5:
            seq.append({"op": "SCRIBBLE_PARAM", "obj": name, "param": "initialize"})
        plans.append(seq)
    # interleave the objects' sequences, keeping each object's order
    while any(plans):
        s = rng.choice([q for q in plans if q])
        ops.append(s.pop(0))
    _warm_forms(rng, ops)
    return {"heap": heap, "ops": ops}


def _warm_forms(rng, ops):
    for o in ops:
        if o["op"] == "FIT" and not o.get("warm") and not (o.get("env") or {}).get("interrupt") and rng.random() < 0.1:
            o["via_fit_transform"] = True  # feature selectors only (executor)
        if o["op"] == "SET" and "how" not in o and rng.random() < 0.5:
            o["how"] = "set_params"  # BaseEstimator.set_params instead of attribute assignment
        if o["op"] == "FIT" and o.get("warm") and rng.random() < 0.1:
            o["warm_form"] = rng.choice(["np_bool", "int"])


# ----------------------------------------------------------------------------- C06


def gen_c06(rng, idx, tier, faults):
    heap, ops = {}, []
    kinds = ["uniform", "clusters", "clusters", "lattice", "dups", "offset", "scaled", "gauss"]
    xs = gen_X(rng, kinds, 4, 80 if tier == "thorough" else 48, 2, 6)
    if rng.random() < 0.15:
        xs["storage"] = rng.choice(["F", "view", "readonly"])  # the caller's memory layout
    long_run = rng.random() < 0.1
    very_long = False
    if long_run:
        xs["shape"][0] = rng.randint(70, 140)  # long searches (counters, thresholds on the number of updates)
        if rng.random() < 0.12:
            # ... and a few searches that go past 256 selections (counters, labels and work
            # arrays sized or typed from the first request)
            very_long = True
            xs["shape"][0] = rng.randint(262, 330)
            xs["shape"][1] = min(xs["shape"][1], 3)
    if rng.random() < 0.25:
        xs["scale_pow2"] = rng.choice([-30, -24, -20, -12, 10, 20])
    heap["X0"] = xs
    n_from = xs["shape"][0]
    # a second data set with the same number of samples, for cold refits of the same object
    refit = rng.random() < 0.3
    if refit:
        heap["X1"] = dict(gen_X(rng, kinds, n_from, n_from, xs["shape"][1], xs["shape"][1]))
        if "scale_pow2" in xs and rng.random() < 0.5:
            heap["X1"]["scale_pow2"] = xs["scale_pow2"]
    yn = None
    if rng.random() < 0.2:
        yn = "y0"
        heap["y0"] = gen_y(rng, n_from)
    cap = n_from
    N = rng.randint(1, cap) if not very_long else rng.randint(2, 200)
    p = gen_params(rng, "sample.VoronoiFPS", xs["shape"], N, "C06", faults)
    p.pop("progress_bar", None)
    if isinstance(p.get("initialize"), int) and rng.random() < 0.12:
        p["initialize"] = p["initialize"] - n_from  # the same point, counted from the end
    if rng.random() < 0.15:
        # an absolute score threshold below every score the search meets (a fraction of the
        # final farthest distance of a reference run): never reached, but many candidates'
        # distances are below it
        p["score_threshold"] = {"$c06_thr": round(rng.uniform(0.05, 0.7), 3)}
        p["score_threshold_type"] = "absolute"
    # schedule of warm-started continuations
    sched = [N]
    for _ in range(rng.choice([0, 0, 1, 2]) if not long_run else rng.choice([1, 1, 2])):
        if sched[-1] >= cap:
            break
        sched.append(rng.randint(sched[-1] + 1, cap))
    if very_long and sched[-1] <= 256:
        sched.append(rng.randint(258, cap))
    calibrated = "full_fraction" not in p
    nt = int(p.get("n_trial_calculation", 4))
    all128 = faults and calibrated and idx % (25 if tier == "thorough" else 100) == 0
    if all128:
        lanes = [{"mode": "force", "bits": [(b >> i) & 1 for i in range(7)], "n_trial": nt, "seed": 1} for b in range(128)]
    elif not calibrated:
        lanes = [{"mode": "normal", "seed": _seed(rng)}] + ([clock_fault(rng, nt)] if faults else [])
    elif faults:
        lanes = [{"mode": "normal", "seed": _seed(rng)}] + [clock_fault(rng, nt) for _ in range(rng.randint(1, 3))]
    else:
        lanes = [{"mode": "normal", "seed": _seed(rng)} for _ in range(2)]
    restart_at = rng.randrange(1, len(sched)) if (len(sched) > 1 and rng.random() < 0.3) else None
    forms = [p["n_to_select"]] + [n_form(rng, n, n_from) for n in sched[1:]]
    refit_init = rng.randrange(n_from) if (refit and rng.random() < 0.6) else None
    refit_X = rng.choice(["X0", "X1"]) if refit_init is not None else "X1"
    restart_mode = rng.choice(["pickle", "deepcopy"])
    read_after = rng.randrange(len(sched)) if rng.random() < 0.3 else None
    read_m = rng.choice([("get_support", {}), ("get_support", {"indices": True}), ("get_distance", {}), ("get_select_distance", {}), ("score", {})])
    # buffer reuse: a single object fits X0, the caller overwrites X0 in place, cold refit on X0
    reuse = refit and len(lanes) <= 2 and rng.random() < 0.35 and xs.get("storage", "C") not in ("readonly", "memmap")
    if reuse:
        lanes = lanes[:1]
    # the caller reuses the buffer it fitted on and continues the chain on an equal-valued copy
    moved_at = None
    if not reuse and len(sched) > 1 and xs.get("storage", "C") not in ("readonly", "memmap") and rng.random() < 0.12:
        lanes = lanes[:1]
        moved_at = rng.randrange(1, len(sched))
        xs["storage"] = rng.choice(["C", "F", "F", "view"])
        heap["X0c"] = dict(xs)
        heap["X0c"]["storage"] = rng.choice(["C", "F", "view"])
    shrink_to = None
    if sched[-1] >= 3 and sched[-1] < cap and rng.random() < 0.08:
        shrink_to = (rng.randint(1, sched[-1] - 1), rng.randint(sched[-1] + 1, cap))
    crash = None
    if faults and not all128 and rng.random() < 0.12:
        crash = {"where": rng.choice(["start", "before_refit"]) if refit else "start",
                 "exc": rng.choice(["KeyboardInterrupt", "MemoryError"]), "at": rng.randint(1, 400), "warm": rng.random() < 0.3}
    ff_set = None
    if not calibrated and len(sched) > 1 and rng.random() < (0.7 if long_run else 0.25):
        # the switching point is re-parameterised between two fits of the chain
        ff_set = (rng.randrange(1, len(sched)), rng.choice([1e-9, 0.05, 0.3, 0.6, 1.0]))
    fork_at, fork_init = None, None
    if len(sched) > 1 and rng.random() < 0.08:
        fork_at, fork_init = rng.randrange(1, len(sched)), rng.randrange(n_from)
    reject_at, reject_with = None, None
    if len(sched) > 1 and rng.random() < 0.1:
        reject_at = rng.randrange(1, len(sched))
        if rng.random() < 0.25:
            reject_with = ("initialize", rng.choice(["frist", n_from + 5, -n_from - 3]), p.get("initialize", 0))
        elif rng.random() < 0.7:
            reject_with = ("full_fraction", rng.choice([0, -0.25, 1.5, "auto"]), p.get("full_fraction") or rng.choice([0.3, 0.7, 1.0]))
        else:
            reject_with = ("n_to_select", rng.choice([0, -3, 1.5, n_from + 7]), forms[reject_at])
    lane_rng = [_seed(rng) for _ in lanes]
    lane_jb = [({"mode": rng.choice(["reorder", "batch", "isolate", "isolate", "twice"]), "seed": _seed(rng), "workers": rng.randint(2, 4),
                 "reorder": True, "batch": 2} if (faults and rng.random() < 0.3) else None) for _ in lanes]
    for li, clk in enumerate(lanes):
        name = f"e{li}"
        if faults and not all128:
            clk = dict(clk)
            clk["_rng"] = lane_rng[li]
            if lane_jb[li] is not None:
                clk["_joblib"] = lane_jb[li]
        ops.append({"op": "NEW", "obj": name, "cls": "sample.VoronoiFPS", "params": dict(p), "lane": 0})
        if crash and crash["where"] == "start":
            # a fit that crashes at an arbitrary line; the history proper starts with a cold fit
            ops.append({"op": "FIT", "obj": name, "X": "X1" if refit else "X0", "y": None, "warm": False,
                        "env": {"clock": clk, "interrupt": {"exc": crash["exc"], "at": crash["at"]}}})
        for si, n in enumerate(sched):
            if si > 0:
                ops.append({"op": "SET", "obj": name, "params": {"n_to_select": forms[si]}})
                if ff_set and ff_set[0] == si:
                    ops.append({"op": "SET", "obj": name, "params": {"full_fraction": ff_set[1]}})
                if restart_at == si:
                    ops.append({"op": "RESTART", "obj": name, "mode": restart_mode})
            if moved_at is not None and si == moved_at:
                rec = {k: v for k, v in xs.items() if k not in ("storage",)}
                rec["seed"] = _seed(rng)
                ops.append({"op": "MUTATE", "h": "X0", "recipe": rec})
            xcur = "X0c" if (moved_at is not None and si >= moved_at) else "X0"
            if si > 0 and fork_at == si:
                # the caller takes a shallow copy of the fitted selector (copy.copy shares the
                # fitted arrays), fits the COPY cold from another start on data of the same
                # size, and then continues the original
                fk = name + "k"
                ops.append({"op": "FORK", "obj": fk, "from": name, "lane_of": name})
                ops.append({"op": "SET", "obj": fk, "params": {"initialize": fork_init, "n_to_select": forms[0]}, "lane_of": name})
                ops.append({"op": "FIT", "obj": fk, "X": xcur, "y": yn, "warm": False, "env": {"clock": clk}, "lane_of": name})
            if si > 0 and reject_at == si:
                # a cold refit rejected for an invalid parameter value, parameter corrected,
                # then the continuation (see gen_c08)
                ops.append({"op": "SET", "obj": name, "params": {reject_with[0]: reject_with[1]}})
                ops.append({"op": "FIT", "obj": name, "X": xcur, "y": yn, "warm": False, "env": {"clock": clk}, "expect_fail": True, "rejected_refit": True})
                ops.append({"op": "SET", "obj": name, "params": {reject_with[0]: reject_with[2]}})
            ops.append({"op": "FIT", "obj": name, "X": xcur, "y": yn, "warm": si > 0, "env": {"clock": clk}})
            if read_after == si:
                ops.append({"op": "READ", "obj": name, "method": read_m[0], "kwargs": read_m[1]})
        if fork_at is not None and len(sched) > 1:
            pass
        if shrink_to is not None:
            # a continuation that asks for fewer selections, then one that asks for more again
            xlast = "X0c" if moved_at is not None else "X0"
            ops.append({"op": "SET", "obj": name, "params": {"n_to_select": shrink_to[0]}})
            ops.append({"op": "FIT", "obj": name, "X": xlast, "y": yn, "warm": True, "shrink": True, "env": {"clock": clk}})
            ops.append({"op": "SET", "obj": name, "params": {"n_to_select": shrink_to[1]}})
            ops.append({"op": "FIT", "obj": name, "X": xlast, "y": yn, "warm": True, "env": {"clock": clk}})
        if refit and reuse:
            rec = {k: v for k, v in xs.items() if k not in ("storage",)}
            rec["seed"] = _seed(rng)
            ops.append({"op": "MUTATE", "h": "X0", "recipe": rec})
            refit_X_eff = "X0"
        else:
            refit_X_eff = refit_X
        if moved_at is not None and refit_X_eff == "X0":
            refit_X_eff = "X0c"
        if refit and crash and crash["where"] == "before_refit":
            ops.append({"op": "FIT", "obj": name, "X": refit_X_eff, "y": None if refit_X_eff == "X1" else yn, "warm": crash["warm"],
                        "env": {"clock": clk, "interrupt": {"exc": crash["exc"], "at": crash["at"]}}})
        if refit:
            # cold refit of the same object: other data of equal size and/or another start
            if refit_init is not None:
                ops.append({"op": "SET", "obj": name, "params": {"initialize": refit_init, "n_to_select": forms[0]}})
            else:
                ops.append({"op": "SET", "obj": name, "params": {"n_to_select": forms[0]}})
            ops.append({"op": "FIT", "obj": name, "X": refit_X_eff, "y": None if refit_X_eff == "X1" else yn, "warm": False, "env": {"clock": clk}})
    for o in ops:
        e = o.get("env")
        if o["op"] == "FIT" and e and isinstance(e.get("clock"), dict) and "_rng" in e["clock"]:
            c = dict(e["clock"])
            e["rng"] = {"seed": c.pop("_rng")}  # another ambient RNG state per lane
            if "_joblib" in c:
                e["joblib"] = c.pop("_joblib")  # ... and another ambient joblib configuration
            e["clock"] = c
    wf = rng.choice(["np_bool", "int"]) if rng.random() < 0.1 else None
    for o in ops:
        if wf and o["op"] == "FIT" and o.get("warm"):
            o["warm_form"] = wf  # the same form in every lane
    names = []
    for o in ops:
        if o.get("obj") and (o.get("lane_of") or o["obj"]) not in names:
            names.append(o.get("lane_of") or o["obj"])
    if 2 <= len(names) <= 4 and all(o.get("obj") for o in ops) and rng.random() < 0.4:
        # the objects of the lanes live in one process and are used alternately: the
        # operations of the lanes are interleaved (each lane keeps its own order), so state
        # shared between objects of the class - module-level pools, class attributes - is
        # overwritten by another object between two fits of a chain
        queues = {n: [o for o in ops if (o.get("lane_of") or o["obj"]) == n] for n in names}
        merged = []
        while any(queues.values()):
            n = rng.choice([k for k, q in queues.items() if q])
            merged.append(queues[n].pop(0))
        ops = merged
    return {"heap": heap, "ops": ops}


# ----------------------------------------------------------------------------- C08

C08_CLASSES = ALL_CLASSES
C08_KINDS_FPS = ["gauss", "uniform", "scaled", "clusters", "offset"]
C08_KINDS_CUR = ["gauss", "uniform", "scaled"]


def _c08_object(rng, o, heap, faults, exhaustive=None):
    cls = rng.choice(C08_CLASSES)
    info = SEL[cls]
    fam = info["fam"]
    if exhaustive:
        xs = gen_X(rng, C08_KINDS_CUR, 9, 14, 9, 14)
    else:
        xs = gen_X(rng, C08_KINDS_CUR if fam in ("cur", "pcovcur") else C08_KINDS_FPS, 5, 30, 5, 14)
    xn, yn = f"X{o}", None
    if not exhaustive and rng.random() < 0.12:
        xs["cast"] = "float32"  # the caller's single-precision data (kept in float32 by the library)
    if not exhaustive and rng.random() < 0.15:
        xs["storage"] = rng.choice(["F", "view", "readonly"])  # the caller's memory layout
    heap[xn] = xs
    if info["y"] == "req" or rng.random() < 0.4:
        yn = f"y{o}"
        heap[yn] = gen_y(rng, xs["shape"][0])
    n_from = xs["shape"][info["axis"]]
    p = gen_params(rng, cls, xs["shape"], 1, "C08", faults)
    p.pop("progress_bar", None)
    if fam in ("cur", "pcovcur"):
        p["recompute_every"] = rng.choice([0, 1, 1])
        limit = min(xs["shape"]) - int(p.get("k", 1)) - 2
    else:
        limit = n_from - 1
    limit = max(2, min(limit, 12))
    if isinstance(p.get("initialize"), list):
        p["initialize"] = p["initialize"][:1]
    elif isinstance(p.get("initialize"), dict) and "$ndarray" in p["initialize"]:
        p["initialize"] = {"$ndarray": p["initialize"]["$ndarray"][:1]}
    return cls, info, fam, xs, xn, yn, n_from, p, limit


def gen_c08(rng, idx, tier, faults):
    heap, ops = {}, []
    exhaustive = idx % (20 if tier == "thorough" else 200) == 0
    if exhaustive:
        cls, info, fam, xs, xn, yn, n_from, p, limit = _c08_object(rng, 0, heap, faults, exhaustive=True)
        n = min(7 if (tier == "thorough" and idx % 40 == 0) else 6, limit)
        k = 0
        for mask in range(2 ** (n - 1)):
            sched = [i + 1 for i in range(n - 1) if (mask >> i) & 1] + [n]
            name = f"e{k}"
            k += 1
            q = dict(p)
            q["n_to_select"] = sched[0]
            ops.append({"op": "NEW", "obj": name, "cls": cls, "params": q, "final": n})
            for si, s in enumerate(sched):
                if si > 0:
                    ops.append({"op": "SET", "obj": name, "params": {"n_to_select": s}})
                ops.append({"op": "FIT", "obj": name, "X": xn, "y": yn, "warm": si > 0, "env": quiet_env(rng, fam)})
        return {"heap": heap, "ops": ops, "exhaustive_schedules": n}
    nobj = 1 if rng.random() < 0.65 else 2
    plans = []
    shared = nobj == 2 and rng.random() < 0.3
    for o in range(nobj):
        cls, info, fam, xs, xn, yn, n_from, p, limit = _c08_object(rng, o, heap, faults)
        if shared and o == 1:
            # the second selector is of the same class and is fitted on the SAME array object
            # as the first one, after the caller refilled that buffer with other values: state
            # shared between objects and keyed by the identity of the array would be stale
            heap.pop(xn, None)
            heap.pop(yn, None) if yn else None
            cls, info, fam, xs, xn, n_from, limit = first[0], first[1], first[2], first[3], first[4], first[5], first[6]
            yn = first[7]
            p = gen_params(rng, cls, xs["shape"], 1, "C08", faults)
            p.pop("progress_bar", None)
            if fam in ("cur", "pcovcur"):
                p["recompute_every"] = rng.choice([0, 0, 1])
            if isinstance(p.get("initialize"), list):
                p["initialize"] = p["initialize"][:1]
            elif isinstance(p.get("initialize"), dict) and "$ndarray" in p["initialize"]:
                p["initialize"] = {"$ndarray": p["initialize"]["$ndarray"][:1]}
        if o == 0:
            first = (cls, info, fam, xs, xn, n_from, limit, yn)
        final = rng.randint(2, limit)
        sched = sorted(rng.sample(range(1, final), rng.randint(0, min(4, final - 1)))) + [final]
        name = f"e{o}"
        q = dict(p)
        q["n_to_select"] = n_form(rng, sched[0], n_from)
        if rng.random() < 0.3:
            # a threshold fixed at construction that the cold fit misses by a modest margin
            t = rng.choice(["absolute", "relative", "relative"])
            q["score_threshold"] = {"$unreached": rng.uniform(0.5, 0.95), "type": t, "at_construction": True}
            q["score_threshold_type"] = t
        cur_thr = [q["score_threshold"]["$unreached"] if "score_threshold" in q else None]
        must_lower = False
        if "score_threshold" in q and len(sched) > 1 and rng.random() < 0.4:
            # ... a threshold that only the FIRST fit of the chain misses (a fraction of the
            # smallest score among its own steps; later steps may score below it) and that the
            # caller lowers, below every score of the whole search, before continuing
            q["score_threshold"]["upto"] = sched[0]
            must_lower = True
        seq = [{"op": "NEW", "obj": name, "cls": cls, "params": q, "final": final, "X": xn, "y": yn}]
        if fam in ("cur", "pcovcur") and rng.random() < 0.12:
            # the object was used before with ANOTHER refresh setting (a cold fit), then
            # re-parameterised: the chain's own cold fit must start from scratch
            other = 1 if q.get("recompute_every", 1) == 0 else 0
            q0 = dict(q)
            q0["recompute_every"] = other
            seq[0] = dict(seq[0], params=q0)
            seq.append({"op": "FIT", "obj": name, "X": xn, "y": yn, "warm": False, "env": None, "prelude": True})
            seq.append({"op": "SET", "obj": name, "params": {"recompute_every": q.get("recompute_every", 1)}})
        if shared and o == 1 and xs.get("storage", "C") not in ("readonly", "memmap"):
            rec = {k: v for k, v in xs.items() if k != "storage"}
            rec["seed"] = _seed(rng)
            seq = [{"op": "MUTATE", "h": xn, "recipe": rec}] + seq
        mk_env = (lambda: env_fault(rng, fam, p, ["clock", "arpack", "rng"])) if faults else (lambda: quiet_env(rng, fam))
        moved = False
        second_cold = (
            rng.random() < 0.1
            # (a generator INSTANCE legitimately advances from fit to fit; a timing-calibrated
            # VoronoiFPS may refuse its second cold fit - the known zero-calibration finding)
            and not (isinstance(q.get("random_state"), dict) and "$rs" in q["random_state"])
            and not (fam == "voronoi" and "full_fraction" not in q)
        )
        for si, s in enumerate(sched):
            if si == 1 and second_cold:
                # the object is cold-fitted a second time (same parameters, same data) before the
                # chain goes on: a fresh start must not remember the first one (generators stored
                # on the estimator, sticky fall-back flags ...)
                seq.append({"op": "FIT", "obj": name, "X": xn, "y": yn, "warm": False, "env": mk_env()})
            if si > 0:
                seq.append({"op": "SET", "obj": name, "params": {"n_to_select": n_form(rng, s, n_from)}})
                r = rng.random()
                if must_lower and si == 1:
                    r = 2.0
                    cur_thr[0] = rng.uniform(0.05, 0.8)
                    seq.append({"op": "SET", "obj": name, "params": {"score_threshold": {
                        "$unreached": cur_thr[0], "type": q["score_threshold_type"], "at_construction": True}}})
                if r < 0.15:
                    seq.append({"op": "RESTART", "obj": name, "mode": rng.choice(["pickle", "deepcopy"])})
                elif r < 0.35 and "score_threshold" not in q:
                    t = rng.choice(["absolute", "relative"])
                    seq.append(
                        {
                            "op": "SET",
                            "obj": name,
                            "params": {
                                "score_threshold": {"$unreached": 10 ** rng.uniform(-6, -3), "type": t},
                                "score_threshold_type": t,
                            },
                        }
                    )
                elif r < 0.42 and "score_threshold" not in q:
                    seq.append({"op": "SET", "obj": name, "params": {"score_threshold": None}})
                elif r < 0.45 and isinstance(q.get("score_threshold"), dict) and q["score_threshold"].get("at_construction"):
                    # the threshold fixed at construction (not reached so far) is lowered
                    # before the search is continued: still unreached, and the continuation
                    # must honour the value the estimator has now
                    cur_thr[0] = cur_thr[0] * rng.uniform(0.05, 0.8)
                    seq.append({"op": "SET", "obj": name, "params": {"score_threshold": {
                        "$unreached": cur_thr[0], "type": q["score_threshold_type"], "at_construction": True}}})
            if si > 0 and rng.random() < 0.08:
                # a cold refit that the library REJECTS (an invalid parameter value - no fault),
                # the parameter is corrected and the search is continued: if the object still
                # reports its selections it is a fitted selector and the continuation is an
                # ordinary member of the chain
                bad = [("n_to_select", rng.choice([0, -3, 1.5, n_from + 7]))]
                if fam == "voronoi":
                    bad.append(("full_fraction", rng.choice([0, -0.25, 1.5, "auto"])))
                    bad.append(("full_fraction", rng.choice([0, -0.25, 1.5, "auto"])))
                if fam == "cur":
                    bad.append(("k", 10**6))  # refused by the truncated SVD (PCov-CUR falls back to a dense solver)
                if fam in ("fps", "pcovfps", "voronoi"):
                    bad.append(("initialize", rng.choice(["frist", n_from + 5])))
                bk, bv = rng.choice(bad)
                good = q.get(bk, {"full_fraction": 0.5, "k": 1, "initialize": 0}.get(bk))
                if bk == "n_to_select":
                    good = n_form(rng, s, n_from)
                if bk == "full_fraction" and good is None:
                    good = rng.choice([0.3, 0.7, 1.0])  # the calibrated value was written back; choose one
                seq.append({"op": "SET", "obj": name, "params": {bk: bv}})
                seq.append({"op": "FIT", "obj": name, "X": xn if not moved else xn + "c", "y": yn, "warm": False, "env": None, "expect_fail": True, "rejected_refit": True})
                seq.append({"op": "SET", "obj": name, "params": {bk: good}})
            xuse = xn if not moved else xn + "c"
            if si > 0 and not moved and rng.random() < 0.15:
                xuse = xn + "c"
                heap[xuse] = dict(heap[xn])  # same recipe: equal values, another array object
                heap[xuse]["storage"] = rng.choice(["C", "F", "view"])
                if rng.random() < 0.5:
                    # ... because the caller has meanwhile reused the buffer it fitted on
                    moved = True
                    # the buffer of the earlier fits in the caller's own layout (a column-major
                    # array passes validation and np.asfortranarray without a copy)
                    heap[xn]["storage"] = rng.choice(["C", "F", "F", "view"])
                    rec = {k: v for k, v in heap[xn].items() if k != "storage"}
                    rec["seed"] = _seed(rng)
                    seq.append({"op": "MUTATE", "h": xn, "recipe": rec})
            if faults and si > 0 and os.environ.get("HOSTSIM_WARM_AFTER_CRASH") == "1" and rng.random() < 0.1:
                # experiment only (DESIGN 5.4): the continuation crashes at an arbitrary line and is retried
                ce = dict(mk_env() or {})
                ce["interrupt"] = {"exc": rng.choice(["KeyboardInterrupt", "MemoryError"]), "at": rng.randint(1, 300)}
                seq.append({"op": "FIT", "obj": name, "X": xuse, "y": yn, "warm": True, "env": ce})
                seq.append({"op": "FIT", "obj": name, "X": xuse, "y": yn, "warm": True, "env": mk_env(), "retry_after_crash": True})
            else:
                seq.append({"op": "FIT", "obj": name, "X": xuse, "y": yn, "warm": si > 0, "env": mk_env()})
            if rng.random() < 0.3:
                seq.append(gen_read(rng, name, cls))
        xfin = xn + "c" if moved else xn
        if fam == "fps" and rng.random() < 0.35:
            # FPS initialised with the already selected prefix
            name2 = f"p{o}"
            q2 = {k: v for k, v in q.items() if not k.startswith("score_threshold")}
            q2["n_to_select"] = final
            q2["initialize"] = {"$prefix_of": name, "len": rng.randint(1, final)}
            seq.append({"op": "NEW", "obj": name2, "cls": cls, "params": q2, "final": final, "twin_from": name})
            seq.append({"op": "FIT", "obj": name2, "X": xfin, "y": yn, "warm": False, "env": mk_env()})
        if fam in ("fps", "pcovfps", "voronoi") and rng.random() < 0.1:
            # the only fit so far failed (mistyped initialize) before anything was selected:
            # the selector has never been fitted, so a warm start must still be rejected
            name4 = f"f{o}"
            q4 = {k: v for k, v in q.items() if not k.startswith("score_threshold")}
            q4["n_to_select"] = final
            q4["initialize"] = rng.choice(["randm", "first", n_from + 3, -n_from - 2])
            seq.append({"op": "NEW", "obj": name4, "cls": cls, "params": q4, "final": final})
            seq.append({"op": "FIT", "obj": name4, "X": xfin, "y": yn, "warm": False, "env": None, "expect_fail": True})
            seq.append({"op": "SET", "obj": name4, "params": {"initialize": rng.randrange(n_from)}})
            seq.append({"op": "FIT", "obj": name4, "X": xfin, "y": yn, "warm": True, "expect": "reject", "env": None})
        if rng.random() < 0.1:
            name3 = f"u{o}"
            seq.append({"op": "NEW", "obj": name3, "cls": cls, "params": {k: v for k, v in q.items() if not k.startswith("score_threshold")}, "final": final})
            seq.append({"op": "FIT", "obj": name3, "X": xfin, "y": yn, "warm": True, "expect": "reject", "env": None})
        plans.append(seq)
    while any(plans):
        s = rng.choice([q for q in plans if q])
        ops.append(s.pop(0))
    _warm_forms(rng, ops)
    # the reference (twin) fits run in a forked child - leaving no trace in the process that
    # hosts the history - whenever objects share a buffer, and in a fifth of the other runs
    return {"heap": heap, "ops": ops, "fork_twins": bool(shared or rng.random() < 0.2)}


# ----------------------------------------------------------------------------- reductions


def reductions(trace):
    """Candidate smaller traces, most aggressive first."""
    ops = trace["ops"]
    objs = []
    for o in ops:
        if o["op"] == "NEW" and o["obj"] not in objs:
            objs.append(o["obj"])

    def with_ops(new_ops):
        t = copy.deepcopy(trace)
        t["ops"] = new_ops
        used = set()
        for o in new_ops:
            for k in ("X", "y", "h"):
                if o.get(k):
                    used.add(o[k])
        t["heap"] = {k: v for k, v in t["heap"].items() if k in used}
        return t

    # 1. drop whole objects (keep objects others depend on)
    if len(objs) > 1:
        for name in reversed(objs):
            dep = any(
                isinstance(v, dict) and v.get("$prefix_of") == name
                for o in ops
                if o["op"] in ("NEW", "SET") and o.get("obj") != name
                for v in o["params"].values()
            ) or any(o.get("twin_from") == name for o in ops if o["op"] == "NEW") or any(
                o.get("from") == name for o in ops if o["op"] == "FORK"
            )
            if not dep:
                yield with_ops([o for o in ops if o.get("obj") != name])
    # 2. drop a trailing op / single ops (never a NEW that is still used)
    for i in range(len(ops) - 1, -1, -1):
        o = ops[i]
        if o["op"] in ("NEW", "FORK"):
            continue
        yield with_ops(ops[:i] + ops[i + 1 :])
    # 3. quiet environment
    for i, o in enumerate(ops):
        if o.get("env"):
            t = copy.deepcopy(trace)
            t["ops"][i]["env"] = None
            yield t
            for k in list(o["env"]):
                if len(o["env"]) > 1:
                    t = copy.deepcopy(trace)
                    del t["ops"][i]["env"][k]
                    yield t
    # 4. default storage, drop optional parameters
    for k, spec in trace["heap"].items():
        if spec.get("storage", "C") != "C":
            t = copy.deepcopy(trace)
            t["heap"][k]["storage"] = "C"
            yield t
    for i, o in enumerate(ops):
        if o["op"] == "NEW":
            for k in list(o["params"]):
                if k in ("n_to_select",):
                    continue
                t = copy.deepcopy(trace)
                del t["ops"][i]["params"][k]
                if o.get("lane") is not None:
                    # lanes are identical objects under different environments: keep them identical
                    for o2 in t["ops"]:
                        if o2["op"] == "NEW" and o2.get("lane") == o.get("lane"):
                            o2["params"].pop(k, None)
                yield t
    # 5. shrink data: fewer rows / columns (explicit values)
    for k, spec in trace["heap"].items():
        a = D.make_array(spec)
        if a.ndim != 2:
            continue
        for axis in (0, 1):
            if a.shape[axis] > 2:
                keep = max(2, a.shape[axis] // 2)
                for sl in (slice(0, keep), slice(0, a.shape[axis] - 1)):
                    b = a[sl] if axis == 0 else a[:, sl]
                    t = copy.deepcopy(trace)
                    from .util import arr_to_hex

                    new = arr_to_hex(b)
                    new["storage"] = spec.get("storage", "C")
                    t["heap"][k] = new
                    if axis == 0:
                        # targets share the row count
                        for k2, s2 in trace["heap"].items():
                            if k2 != k and k2.startswith("y") and k2[1:] == k[1:]:
                                y = D.make_array(s2)
                                ny = arr_to_hex(y[sl])
                                ny["storage"] = s2.get("storage", "C")
                                t["heap"][k2] = ny
                    yield t


# ----------------------------------------------------------------------------- scenario


class SelectorScenario:
    GEN = {"C01": gen_c01, "C06": gen_c06, "C08": gen_c08}
    PLANS = {
        "C01": {"quick": (6000, 6000), "thorough": (150000, 150000)},
        "C06": {"quick": (4000, 4000), "thorough": (100000, 100000)},
        "C08": {"quick": (4000, 4000), "thorough": (100000, 100000)},
    }

    def __init__(self, pid):
        self.pid = pid

    def preload(self):
        from . import selectors  # noqa: F401

    def anchor_files(self):
        return {
            "C01": ["_selection.py", "sample_selection/_voronoi_fps.py", "feature_selection/_base.py", "sample_selection/_base.py"],
            "C06": ["sample_selection/_voronoi_fps.py", "_selection.py"],
            "C08": ["_selection.py", "sample_selection/_voronoi_fps.py"],
        }[self.pid]

    def plan(self, tier):
        q, f = self.PLANS[self.pid][tier]
        return {
            "quiet": q,
            "faults": f,
            "timeout": 180.0,
            "budget": 75.0 if tier == "quick" else 3600.0,
            "slice": 12 if tier == "quick" else 40,
        }

    def generate(self, rng, idx, tier, faults):
        tr = self.GEN[self.pid](rng, idx, tier, faults)
        tr["property"] = self.pid
        return tr

    def execute(self, trace):
        return SelectorWorld(trace, self.pid).run()

    def reductions(self, trace):
        return reductions(trace)

    def describe(self, trace, res):
        return {
            "heap": {k: {kk: vv for kk, vv in v.items() if kk != "hex"} for k, v in trace["heap"].items()},
            "ops": trace["ops"][:12],
            "n_ops": len(trace["ops"]),
            "faults_fired": res["fired"],
            "probes": res["probes"],
            "digest": res["digest"],
        }

    def rule(self):
        return (
            "Each run is one explicit trace (caller arrays + NEW/SET/FIT/RESTART operations on selector objects + "
            "per-fit environment scripts) generated from H(VERIF_SEED, property, tier, batch, index) and executed "
            "against the real skmatter code inside the host simulator. A run's signature is (classes, operation-kind "
            "sequence, fault kinds that fired, probes hit); distinct_nontrivial counts distinct signatures among runs "
            "with at least one successful fit and at least two selections made."
        )

    def required_probes(self, tier):
        req = {
            "C01": ["threshold_stop", "threshold_stop_inside_warm_fit"],
            "C06": ["voronoi_sparse_update_with_pruned_candidates", "voronoi_full_update"],
            "C08": ["compared_after_warm_start", "warm_start_on_unfitted_rejected"],
        }[self.pid]
        if self.pid == "C06":
            req = req + ["all_128_calibration_outcomes_forced_on_one_input"]
        if self.pid == "C08":
            req = req + ["every_increasing_schedule_up_to_6_on_one_input"]
        return req

    def real_components(self):
        return [
            "skmatter (all of it, imported from /repo/src, unmodified)",
            "numpy/scipy LAPACK+ARPACK numerics",
            "scikit-learn validation",
            "tqdm (when progress_bar=True)",
            "pickle (RESTART)",
        ]

    def stub_components(self):
        return [
            "wall clock read by skmatter modules (virtual clock)",
            "ARPACK start vectors (supplied by the simulator)",
            "ambient numpy/python RNG state",
            "sys.stderr (fault-injecting stream)",
            "progress-bar factory (wraps real tqdm, adds step boundaries)",
            "caller heap (snapshotted arrays, storage kinds)",
        ]

    def assumptions(self):
        return [
            "numpy/scipy/scikit-learn behave as installed in /venv",
            "tie/rounding model: a choice is accepted when within tau = 64*eps*2*max|x|^2*dim of the reference optimum",
            "tasks and fits are atomic with respect to each other (single caller thread)",
        ]
