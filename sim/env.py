"""The simulated environment: every seam of DESIGN.md section 1 (S1-S8).

Nothing in here reads a real clock or an unseeded generator. Every fault kind keeps a
counter of how often it actually *fired* (not merely was configured).
"""

import contextlib
import errno
import io
import random
import sys
import time as _real_time
import types
import warnings
from collections import Counter

import numpy as np

from .util import subseed

# --------------------------------------------------------------------------- clock


class ClockReadCap(Exception):
    """Raised when one operation reads the clock more often than the liveness cap."""


class VirtualClock:
    """Simulated wall clock. Time advances only through scripted deltas."""

    T0 = 1.7e9
    CAP = 20000  # reads per operation (bounded liveness, C06 clause g)

    def __init__(self, stats):
        self.stats = stats
        self.now = self.T0
        self.total_reads = 0
        self.configure(None)

    # -- configuration for the next operation
    def configure(self, spec):
        spec = dict(spec or {"mode": "normal", "seed": 1})
        self.spec = spec
        self.mode = spec.get("mode", "normal")
        self.rng = random.Random(spec.get("seed", 1))
        self.reads = 0
        self.fired = False
        self._fine = self.now
        if self.mode == "force":
            # adversarial script for the VoronoiFPS calibration read pattern:
            # reads 1,2 bracket the "simple" timing (n_trial products); then for each
            # bisection step, n_trial brackets of two reads each.
            nt = max(1, int(spec.get("n_trial", 4)))
            bits = list(spec.get("bits", []))
            deltas = [0.0, float(nt)]  # simple timing == 1.0 per trial
            for b in bits:
                for _ in range(nt):
                    deltas.append(0.125)  # gap between brackets
                    deltas.append(0.5 if b else 2.0)  # voronoi bracket vs 1.0
            self._script = deltas
        elif self.mode == "raw":
            self._script = [float(x) for x in spec.get("deltas", [])]
        else:
            self._script = None

    def _delta(self):
        m = self.mode
        k = self.reads  # 1-based index of this read
        if self._script is not None:
            if k - 1 < len(self._script):
                self.fired = True
                return self._script[k - 1]
            return 1e-6
        # durations spread over two decades: scheduler noise, cache effects, frequency scaling
        base = 1e-6 * 10.0 ** self.rng.uniform(-1.0, 1.0)
        if m in ("normal", "coarse"):
            return base
        if m == "frozen":
            self.fired = True
            return 0.0
        at = int(self.spec.get("at", 3))
        if k == at:
            self.fired = True
            if m == "backward":
                return -float(self.spec.get("step", 3600.0))
            if m == "jump":
                return float(self.spec.get("step", 1e6))
            if m == "stall":
                return float(self.spec.get("step", 600.0))
        return base

    def read(self):
        self.reads += 1
        self.total_reads += 1
        if self.reads > self.CAP:
            raise ClockReadCap(f"more than {self.CAP} clock reads in one operation")
        d = self._delta()
        self._fine += d
        if d > 0:
            self.stats["sim_seconds"] += d
        if self.mode == "coarse":
            q = float(self.spec.get("q", 1e-3))
            v = np.floor(self._fine / q) * q
            if v == self.now:
                self.fired = True
            self.now = float(v)
        else:
            self.now = self._fine
        return self.now

    def end_op(self):
        if self.fired and self.reads > 0:
            self.stats["fired"]["clock:" + self.mode] += 1
        n = self.reads
        self.reads = 0
        self.fired = False
        return n

    # the functions that replace time.* inside skmatter
    def time(self):
        return self.read()

    def time_ns(self):
        return int(self.read() * 1e9)

    def sleep(self, s):
        self.reads += 1
        if self.reads > self.CAP:
            raise ClockReadCap("sleep loop")
        self._fine += max(0.0, float(s))
        self.stats["sim_seconds"] += max(0.0, float(s))
        self.now = self._fine


_TIME_FUNCS = ["time", "perf_counter", "monotonic", "process_time", "thread_time"]
_TIME_NS_FUNCS = ["time_ns", "perf_counter_ns", "monotonic_ns", "process_time_ns"]


def _make_time_proxy(clock):
    m = types.ModuleType("time")
    for k in dir(_real_time):
        if not k.startswith("__"):
            setattr(m, k, getattr(_real_time, k))
    for k in _TIME_FUNCS:
        setattr(m, k, clock.time)
    for k in _TIME_NS_FUNCS:
        setattr(m, k, clock.time_ns)
    m.sleep = clock.sleep
    return m


# --------------------------------------------------------------------------- arpack


class ArpackProvider:
    """Supplies the start vector of every ARPACK call that does not carry one."""

    def __init__(self, stats):
        self.stats = stats
        self.calls = 0
        self.last = None
        self.configure(None)

    def configure(self, spec):
        self.spec = dict(spec or {"mode": "fixed"})
        self.mode = self.spec.get("mode", "fixed")
        self.seen = 0
        self.rng = np.random.RandomState(self.spec.get("seed", 7) & 0x7FFFFFFF)

    def maybe_fail(self):
        """Cooperative fault point: the j-th ARPACK call of this operation does not converge
        (legal, rare: scipy raises ArpackNoConvergence)."""
        self.seen += 1
        j = self.spec.get("fail_at")
        if j is not None and self.seen == int(j):
            from scipy.sparse.linalg import ArpackNoConvergence

            self.stats["fired"]["arpack:no_convergence"] += 1
            raise ArpackNoConvergence("ARPACK error -1: No convergence %s" % INJECTED_MARK, np.zeros(0), np.zeros((0, 0)))

    def v0(self, n, A=None):
        self.calls += 1
        m = self.mode
        if m == "fixed":
            # a fixed function of the size only: identical matrices => identical results
            v = np.cos(np.arange(n, dtype=float) * 0.7 + 0.3) + 1.5
        elif m == "same" and self.last is not None and len(self.last) == n:
            v = self.last.copy()
            self.stats["fired"]["arpack:same"] += 1
        elif m == "sparse":
            v = np.zeros(n)
            k = max(1, n // 4)
            idx = self.rng.choice(n, size=k, replace=False)
            v[idx] = self.rng.standard_normal(k)
            self.stats["fired"]["arpack:sparse"] += 1
        elif m == "orth" and A is not None:
            v = self.rng.standard_normal(n)
            try:
                Ad = np.asarray(A, dtype=float)
                if Ad.shape[0] == Ad.shape[1] == n:
                    w, U = np.linalg.eigh((Ad + Ad.T) / 2)
                    u = U[:, -1]
                else:
                    Uu, s, Vt = np.linalg.svd(Ad, full_matrices=False)
                    u = Uu[:, 0] if Uu.shape[0] == n else Vt[0]
                v = v - (u @ v) * u + 1e-9 * u
                self.stats["fired"]["arpack:orth"] += 1
            except Exception:
                pass
        else:
            v = self.rng.standard_normal(n)
            self.stats["fired"]["arpack:dense"] += 1
        if not np.any(v):
            v = np.ones(n)
        self.last = v.copy()
        return v


def _wrap_eigsh(orig, provider):
    def eigsh(A, *args, **kw):
        provider.maybe_fail()
        if kw.get("v0") is None:
            kw["v0"] = provider.v0(A.shape[0], A)
        return orig(A, *args, **kw)

    eigsh.__wrapped__ = orig
    return eigsh


def _wrap_svds(orig, provider):
    def svds(A, *args, **kw):
        # svds draws its own start vector from random_state; only when neither is
        # given does the result depend on ambient state (numpy's global generator,
        # which the simulator owns as well). Supply v0 in that case.
        provider.maybe_fail()
        if kw.get("v0") is None and kw.get("random_state") is None:
            kw["v0"] = provider.v0(min(A.shape), None)
        return orig(A, *args, **kw)

    svds.__wrapped__ = orig
    return svds


class LinalgFaults:
    """Cooperative fault point on the dense LAPACK-backed routines (numpy.linalg / scipy.linalg
    svd, eigh, lstsq, pinv, inv, sqrtm, ...): the j-th such call made *from skmatter code*
    during the operation raises LinAlgError ('SVD did not converge' - legal, rare). Calls made
    by scikit-learn, scipy or the harness itself pass through untouched."""

    def __init__(self, stats):
        self.stats = stats
        self.configure(None)

    def configure(self, spec):
        self.spec = dict(spec or {})
        self.seen = 0
        self.sites = []

    def hit(self, name):
        j = self.spec.get("fail_at")
        if j is None:
            return
        self.seen += 1
        if self.seen == int(j):
            self.stats["fired"]["linalg:no_convergence"] += 1
            self.sites.append(name)
            raise np.linalg.LinAlgError(f"{name}: did not converge {INJECTED_MARK}")


def _from_skmatter(depth=2):
    try:
        return sys._getframe(depth).f_globals.get("__name__", "").startswith("skmatter")
    except ValueError:  # pragma: no cover
        return False


def _wrap_linalg(orig, faults, name):
    def linalg_call(*a, **kw):
        if faults.spec and _from_skmatter():
            faults.hit(name)
        return orig(*a, **kw)

    linalg_call.__wrapped__ = orig
    linalg_call.__name__ = getattr(orig, "__name__", name)
    linalg_call.__doc__ = getattr(orig, "__doc__", None)
    return linalg_call


def _wrap_arpack_attr(orig, provider):
    """`scipy.sparse.linalg.svds/eigsh` reached by attribute access from skmatter code (the CUR
    selectors): the no-convergence fault point applies there as well."""

    def arpack_call(*a, **kw):
        if _from_skmatter():
            provider.maybe_fail()
        return orig(*a, **kw)

    arpack_call.__wrapped__ = orig
    arpack_call.__name__ = getattr(orig, "__name__", "arpack_call")
    return arpack_call


LINALG_TARGETS = {
    "numpy.linalg": ("svd", "eigh", "lstsq", "pinv", "inv", "eigvals", "eigvalsh", "eig", "solve", "cholesky", "qr"),
    "scipy.linalg": ("svd", "eigh", "sqrtm", "pinv", "lstsq", "inv", "solve", "orthogonal_procrustes"),
}


# --------------------------------------------------------------------------- joblib

from joblib import parallel_config, register_parallel_backend  # noqa: E402
from joblib._parallel_backends import ParallelBackendBase  # noqa: E402


class _SimFuture:
    __slots__ = ("func", "callback", "idx", "done", "result", "error", "backend")

    def __init__(self, func, callback, idx, backend=None):
        self.backend = backend
        self.func = func
        self.callback = callback
        self.idx = idx
        self.done = False
        self.result = None
        self.error = None

    def get(self, timeout=None):  # pragma: no cover - joblib falls back to this
        return self.backend.retrieve_result(self)


_BACKEND_STATE = {"backend": None, "script": None, "stats": None, "prefix": None}


class HostSimBackend(ParallelBackendBase):
    """joblib backend whose task schedule is decided by the simulator.

    Tasks are executed atomically, one at a time, in the main thread, in an order
    chosen by the seeded script; completion callbacks fire in that order.
    """

    supports_retrieve_callback = False
    supports_sharedmem = True
    uses_threads = False
    supports_inner_max_num_threads = False

    def __init__(self, **kw):
        super().__init__(**kw)
        self.pending = []
        self.submitted = 0
        _BACKEND_STATE["backend"] = self

    @property
    def script(self):
        return _BACKEND_STATE["script"] or {"mode": "inline"}

    def effective_n_jobs(self, n_jobs):
        return int(self.script.get("workers", 3))

    def configure(self, n_jobs=1, parallel=None, **kw):
        self.parallel = parallel
        self.pending = []
        self.submitted = 0
        self._rng = random.Random(self.script.get("seed", 5))
        _BACKEND_STATE["backend"] = self
        return self.effective_n_jobs(n_jobs)

    def compute_batch_size(self):
        return max(1, int(self.script.get("batch", 1)))

    def submit(self, func, callback=None):
        f = _SimFuture(func, callback, self.submitted, self)
        self.submitted += 1
        self.pending.append(f)
        return f

    apply_async = submit

    def _run(self, f):
        stats = _BACKEND_STATE["stats"]
        mode = self.script.get("mode", "inline")
        func = f.func
        try:
            if mode == "isolate":
                import cloudpickle

                func = cloudpickle.loads(cloudpickle.dumps(func))
                stats["fired"]["joblib:isolate"] += 1
            if mode == "twice":
                func()  # first execution's result is dropped (retrying executor)
                stats["fired"]["joblib:twice"] += 1
            f.result = func()
        except BaseException as e:  # noqa: BLE001 - forwarded to joblib
            f.error = e
        f.done = True
        stats["joblib_tasks"] += 1
        if f.callback is not None:
            f.callback(f)

    def _run_threads(self):
        """Shared-memory threads with a seeded, replayable interleaving: every pending
        task runs in a real thread, exactly one thread holds the baton, and the baton may
        change hands at every line event inside skmatter code (sys.settrace)."""
        stats = _BACKEND_STATE["stats"]
        group, self.pending = self.pending, []
        inter = Interleaver(self._rng, _BACKEND_STATE.get("prefix") or "", float(self.script.get("switch", 0.3)))
        res = inter.run([f.func for f in group])
        stats["fired"]["joblib:threads"] += 1
        stats["joblib_tasks"] += len(group)
        if inter.switches:
            stats["probes"]["tasks_interleaved_at_line_level"] += 1
        stats["thread_switches"] = stats.get("thread_switches", 0) + inter.switches
        for f, (ok, val) in zip(group, res):
            if ok:
                f.result = val
            else:
                f.error = val
            f.done = True
        for f in group:
            if f.callback is not None:
                f.callback(f)

    def retrieve_result(self, out, timeout=None):
        stats = _BACKEND_STATE["stats"]
        mode = self.script.get("mode", "inline")
        while mode == "threads" and not out.done:
            self._run_threads()
        while not out.done:
            if mode in ("reorder", "isolate", "twice", "batch") and len(self.pending) > 1:
                if mode == "reorder" or self.script.get("reorder"):
                    k = self._rng.randrange(len(self.pending))
                else:
                    k = 0
            else:
                k = 0
            f = self.pending.pop(k)
            if any(p.idx < f.idx for p in self.pending):
                stats["fired"]["joblib:out_of_order"] += 1
                stats["probes"]["task_executed_out_of_submission_order"] += 1
            self._run(f)
        if out.error is not None:
            raise out.error
        return out.result

    def get_nested_backend(self):
        # nested Parallel calls (an estimator with n_jobs inside a task) stay inside the
        # simulator: never a real thread pool
        nb = HostSimBackend(nesting_level=(getattr(self, "nesting_level", 0) or 0) + 1)
        return nb, None

    def abort_everything(self, ensure_ready=True):
        self.pending = []

    def terminate(self):
        self.pending = []


class Interleaver:
    """Baton-passing execution of callables in real threads; the choice of who runs next
    is drawn from the seeded generator at deterministic points, so a seed is one exactly
    repeatable interleaving."""

    def __init__(self, rng, prefix, switch_prob):
        self.rng = rng
        self.prefix = prefix
        self.p = switch_prob
        self.switches = 0

    def run(self, funcs):
        import threading

        n = len(funcs)
        results = [None] * n
        go = [threading.Event() for _ in range(n)]
        done = [False] * n
        main = threading.Event()
        state = {"cur": None}
        prefix = self.prefix

        def runnable():
            return [i for i in range(n) if not done[i]]

        def hand_over(me):
            r = [i for i in runnable() if i != me]
            if not r:
                return
            nxt = r[self.rng.randrange(len(r))]
            self.switches += 1
            state["cur"] = nxt
            go[me].clear()
            go[nxt].set()
            go[me].wait()

        def make_tracer(i):
            def local(frame, event, arg):
                if event == "line" and self.rng.random() < self.p:
                    hand_over(i)
                return local

            def glob(frame, event, arg):
                if frame.f_code.co_filename.startswith(prefix):
                    return local
                return None

            return glob

        def body(i):
            go[i].wait()
            sys.settrace(make_tracer(i))
            try:
                results[i] = (True, funcs[i]())
            except BaseException as e:  # noqa: BLE001
                results[i] = (False, e)
            finally:
                sys.settrace(None)
                done[i] = True
                r = runnable()
                if r:
                    nxt = r[self.rng.randrange(len(r))]
                    state["cur"] = nxt
                    go[nxt].set()
                else:
                    main.set()

        ths = [threading.Thread(target=body, args=(i,), daemon=True) for i in range(n)]
        for t in ths:
            t.start()
        if n:
            first = self.rng.randrange(n)
            state["cur"] = first
            go[first].set()
            main.wait()
        for t in ths:
            t.join()
        return results


register_parallel_backend("hostsim", HostSimBackend)

# --------------------------------------------------------------------------- stderr


class TqdmClock:
    """The clock tqdm throttles its redraws with (mininterval 0.1 s, a timer like any
    other): simulated. Each read advances by the scripted step duration, so a search
    whose steps are 'slow' redraws the bar - writes to stderr - at every step, and a
    stream fault lands in the middle of the search instead of only at its start/end."""

    def __init__(self, stats):
        self.stats = stats
        self.now = 1.7e9
        self.dt = 1e-4

    def configure(self, dt):
        self.dt = float(dt) if dt else 1e-4

    def time(self):
        self.now += self.dt
        self.stats["sim_seconds"] += self.dt
        return self.now


class FaultyStream(io.TextIOBase):
    """A stderr whose k-th write fails the way a real terminal/pipe/disk can."""

    def __init__(self, stats, spec):
        super().__init__()
        self.stats = stats
        self.spec = dict(spec or {"mode": "ok"})
        self.nwrites = 0
        self.nbytes = 0
        self.fired = 0

    def writable(self):
        return True

    def isatty(self):
        return False

    def write(self, s):
        self.nwrites += 1
        mode = self.spec.get("mode", "ok")
        at = int(self.spec.get("at", 1))
        if mode != "ok" and self.nwrites >= at:
            self.fired += 1
            self.stats["fired"]["stderr:" + mode] += 1
            if mode == "eio":
                raise OSError(errno.EIO, "Input/output error (injected)")
            if mode == "enospc":
                raise OSError(errno.ENOSPC, "No space left on device (injected)")
            if mode == "epipe":
                raise BrokenPipeError(errno.EPIPE, "Broken pipe (injected)")
            if mode == "closed":
                raise ValueError("I/O operation on closed file (injected)")
        self.nbytes += len(s)
        return len(s)

    def flush(self):
        return None


INJECTED_MARK = "(injected)"

# --------------------------------------------------------------------------- interrupt


class InjectedInterrupt(KeyboardInterrupt):
    pass


class InjectedMemoryError(MemoryError):
    pass


class Interrupter:
    """Raise at the k-th skmatter line event of an operation (sys.settrace)."""

    def __init__(self, stats, prefix):
        self.stats = stats
        self.prefix = prefix
        self.count = 0
        self.target = None
        self.exc = None
        self.fired = False
        self.where = None

    def _global(self, frame, event, arg):
        if frame.f_code.co_filename.startswith(self.prefix):
            return self._local
        return None

    def _local(self, frame, event, arg):
        if event == "line":
            self.count += 1
            if self.target is not None and self.count == self.target and not self.fired:
                self.fired = True
                self.where = (
                    frame.f_code.co_filename[len(self.prefix):],
                    frame.f_lineno,
                )
                sys.settrace(None)
                raise self.exc(f"injected at skmatter line event {self.count}")
        return self._local

    @contextlib.contextmanager
    def counting(self):
        self.count = 0
        self.target = None
        self.fired = False
        old = sys.gettrace()
        sys.settrace(self._global)
        try:
            yield self
        finally:
            sys.settrace(old)

    @contextlib.contextmanager
    def armed(self, target, exc):
        self.count = 0
        self.target = int(target)
        self.exc = exc
        self.fired = False
        self.where = None
        old = sys.gettrace()
        sys.settrace(self._global)
        try:
            yield self
        finally:
            sys.settrace(old)
            if self.fired:
                self.stats["fired"]["interrupt:" + exc.__name__] += 1


# --------------------------------------------------------------------------- progress


_PROGRESS = {"on_step": None}


def _boundaries(iterable):
    cb = _PROGRESS["on_step"]
    i = -1
    for i, item in enumerate(iterable):
        if cb is not None:
            cb(i, "before")
        yield item
    cb = _PROGRESS["on_step"]
    if cb is not None:
        cb(i + 1, "end")


def seam_no_progress_bar(x):
    """Replaces skmatter's no_progress_bar: identity plus step boundaries.

    Module-level (picklable by reference), like the function it replaces."""
    return _boundaries(x)


def seam_tqdm(iterable, *a, **kw):
    """Real tqdm (so stderr faults reach it) plus step boundaries."""
    from tqdm.auto import tqdm

    return _boundaries(tqdm(iterable, *a, **kw))


def seam_get_progress_bar():
    return seam_tqdm


class ProgressSeam:
    """Step boundaries inside the greedy loop, through the progress-bar seam."""

    @property
    def on_step(self):
        return _PROGRESS["on_step"]

    @on_step.setter
    def on_step(self, cb):
        _PROGRESS["on_step"] = cb


# --------------------------------------------------------------------------- the env


def new_stats():
    return {
        "fired": Counter(),
        "probes": Counter(),
        "sim_seconds": 0.0,
        "joblib_tasks": 0,
        "clock_reads": 0,
        "arpack_calls": 0,
    }


class Env:
    def __init__(self, stats=None):
        self.stats = stats if stats is not None else new_stats()
        self.clock = VirtualClock(self.stats)
        self.arpack = ArpackProvider(self.stats)
        self.tqdm_clock = TqdmClock(self.stats)
        self.linalg = LinalgFaults(self.stats)
        self.progress = ProgressSeam()
        self._patches = []
        self._installed = False
        self.seams_found = Counter()
        import skmatter

        self.src_prefix = skmatter.__file__.rsplit("/", 1)[0] + "/"
        self.interrupter = Interrupter(self.stats, self.src_prefix)
        _BACKEND_STATE["stats"] = self.stats
        _BACKEND_STATE["prefix"] = self.src_prefix

    # -- seam installation by identity scan of skmatter module globals
    def install(self):
        import importlib
        import pkgutil

        import scipy.sparse.linalg as ssl
        import skmatter

        for m in pkgutil.walk_packages(skmatter.__path__, "skmatter."):
            try:
                importlib.import_module(m.name)
            except Exception:  # pragma: no cover
                pass
        import skmatter.utils._progress_bar as pb

        time_funcs = {}
        for k in _TIME_FUNCS:
            time_funcs[id(getattr(_real_time, k))] = self.clock.time
        for k in _TIME_NS_FUNCS:
            time_funcs[id(getattr(_real_time, k))] = self.clock.time_ns
        time_funcs[id(_real_time.sleep)] = self.clock.sleep
        proxy = _make_time_proxy(self.clock)
        eigsh_w = _wrap_eigsh(ssl.eigsh, self.arpack)
        svds_w = _wrap_svds(ssl.svds, self.arpack)
        gpb = pb.get_progress_bar
        npb = pb.no_progress_bar
        # dense LAPACK-backed routines: fault points for calls that come from skmatter code
        linalg_funcs = {}
        linalg_attr = []
        for modname, names in LINALG_TARGETS.items():
            lm = importlib.import_module(modname)
            for n in names:
                orig = getattr(lm, n, None)
                if orig is None or hasattr(orig, "__wrapped__") and getattr(orig, "__name__", "") == "linalg_call":
                    continue
                w = _wrap_linalg(orig, self.linalg, f"{modname}.{n}")
                linalg_funcs[id(orig)] = w
                linalg_attr.append((lm, n, orig, w))
        for name, mod in list(sys.modules.items()):
            if not (name == "skmatter" or name.startswith("skmatter.")) or mod is None:
                continue
            for g, v in list(vars(mod).items()):
                new = None
                if id(v) in time_funcs and callable(v):
                    new = time_funcs[id(v)]
                    self.seams_found["clock"] += 1
                elif v is _real_time:
                    new = proxy
                    self.seams_found["clock"] += 1
                elif v is ssl.eigsh:
                    new = eigsh_w
                    self.seams_found["eigsh"] += 1
                elif v is ssl.svds:
                    new = svds_w
                    self.seams_found["svds"] += 1
                elif v is gpb:
                    new = seam_get_progress_bar
                    self.seams_found["progress"] += 1
                elif v is npb:
                    new = seam_no_progress_bar
                    self.seams_found["progress"] += 1
                elif callable(v) and id(v) in linalg_funcs:
                    new = linalg_funcs[id(v)]
                    self.seams_found["linalg_by_name"] += 1
                if new is not None:
                    self._patches.append((mod, g, v))
                    setattr(mod, g, new)
        for lm, n, orig, w in linalg_attr:
            self._patches.append((lm, n, orig))
            setattr(lm, n, w)
            self.seams_found["linalg_by_attribute"] += 1
        for n in ("svds", "eigsh"):
            orig = getattr(ssl, n)
            self._patches.append((ssl, n, orig))
            setattr(ssl, n, _wrap_arpack_attr(orig, self.arpack))
        # tqdm's redraw throttle reads `tqdm.std.time`: owned by the simulator as well
        try:
            import tqdm.std as _ts

            for g, v in list(vars(_ts).items()):
                if v is _real_time.time:
                    self._patches.append((_ts, g, v))
                    setattr(_ts, g, self.tqdm_clock.time)
                    self.seams_found["tqdm_clock"] += 1
        except Exception:  # pragma: no cover
            pass
        self._installed = True
        return self

    def uninstall(self):
        for mod, g, v in reversed(self._patches):
            setattr(mod, g, v)
        self._patches = []
        self._installed = False

    # -- per-operation configuration and execution context
    @contextlib.contextmanager
    def op(self, spec=None, capture_warnings=True):
        """Run one operation under the given environment script.

        Yields a dict that receives 'warnings', 'stderr' (the stream) after the op.
        """
        spec = spec or {}
        self.clock.configure(spec.get("clock"))
        self.arpack.configure(spec.get("arpack"))
        self.linalg.configure(spec.get("linalg"))
        rs = spec.get("rng") or {"seed": 12345}
        np.random.seed(rs.get("seed", 12345) & 0x7FFFFFFF)
        random.seed(rs.get("seed", 12345))
        if spec.get("rng"):
            self.stats["fired"]["rng:reseed"] += 1
        jb = spec.get("joblib") or {"mode": "inline"}
        _BACKEND_STATE["script"] = jb
        st = spec.get("stderr") or {"mode": "ok"}
        self.tqdm_clock.configure(st.get("step_dt"))
        out = {"warnings": [], "stderr": None}
        old_err = sys.stderr
        if st.get("mode") == "none":
            sys.stderr = None
            self.stats["fired"]["stderr:none"] += 1
        else:
            out["stderr"] = FaultyStream(self.stats, st)
            sys.stderr = out["stderr"]
        arp0 = self.arpack.calls
        try:
            with warnings.catch_warnings(record=True) as wl:
                warnings.simplefilter("always")
                with parallel_config(backend="hostsim"):
                    yield out
        finally:
            sys.stderr = old_err
            out["warnings"] = [(w.category.__name__, str(w.message)) for w in wl]
            out["clock_reads"] = self.clock.end_op()
            self.stats["clock_reads"] += out["clock_reads"]
            self.stats["arpack_calls"] += self.arpack.calls - arp0
            if jb.get("mode", "inline") != "inline":
                pass


def is_injected(exc):
    """True if the exception is the injected fault itself (a legitimately failed op)."""
    if isinstance(exc, (InjectedInterrupt, InjectedMemoryError)):
        return True
    if isinstance(exc, (OSError, ValueError, RuntimeError)) and INJECTED_MARK in str(exc):
        return True
    return False
