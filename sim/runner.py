"""Driver: seeded search over traces, fork-per-run isolation, minimisation, replay,
known-findings matching and evidence. Shared by every check."""

import argparse
import faulthandler
import json
import os
import pickle
import random
import select
import shutil
import signal
import sys
import tempfile
import time
import traceback
from collections import Counter
from concurrent.futures import ProcessPoolExecutor
from multiprocessing import get_context

from .util import H, jdump

VERIF = os.path.dirname(os.path.dirname(os.path.abspath(__file__)))
REPO_SRC = os.environ.get("HOSTSIM_REPO_SRC", "/repo/src")


# --------------------------------------------------------------------------- process env


def ensure_process_env():
    """Re-exec once so that hash seed, BLAS threads and import path are pinned."""
    want = {
        "PYTHONHASHSEED": os.environ.get("HOSTSIM_HASHSEED", "0"),
        "OPENBLAS_NUM_THREADS": "1",
        "OMP_NUM_THREADS": "1",
        "MKL_NUM_THREADS": "1",
        "PYTHONDONTWRITEBYTECODE": "1",
    }
    need = any(os.environ.get(k) != v for k, v in want.items())
    pp = os.environ.get("PYTHONPATH", "")
    if REPO_SRC not in pp.split(os.pathsep):
        need = True
    if need and os.environ.get("HOSTSIM_REEXEC") != "1":
        env = dict(os.environ)
        env.update(want)
        env["PYTHONPATH"] = os.pathsep.join([REPO_SRC, VERIF] + ([pp] if pp else []))
        env["HOSTSIM_REEXEC"] = "1"
        os.execve(sys.executable, [sys.executable] + sys.argv_orig, env)
    import skmatter

    src = os.path.realpath(skmatter.__file__)
    if not src.startswith(os.path.realpath(REPO_SRC)):
        print(f"HARNESS-ERROR: skmatter imported from {src}, not from {REPO_SRC}")
        sys.exit(2)


def preload(scenario=None):
    """Import everything the runs need *before* forking, so that children share it."""
    import importlib
    import pkgutil

    import cloudpickle  # noqa: F401
    import joblib  # noqa: F401
    import scipy.sparse.linalg  # noqa: F401
    import skmatter
    import sklearn.linear_model  # noqa: F401
    import sklearn.model_selection  # noqa: F401
    import tqdm.auto  # noqa: F401

    for m in pkgutil.walk_packages(skmatter.__path__, "skmatter."):
        try:
            importlib.import_module(m.name)
        except Exception:  # noqa: BLE001
            pass
    from . import env, refmodels  # noqa: F401

    if scenario is not None and hasattr(scenario, "preload"):
        scenario.preload()


# --------------------------------------------------------------------------- isolation


def run_isolated(fn, arg, timeout=120.0):
    """Run fn(arg) in a forked child; returns (status, payload).

    status in {"ok", "crash", "timeout"}. Every run starts from the same process
    image (in particular the same hidden ARPACK/LAPACK state).
    """
    r, w = os.pipe()
    pid = os.fork()
    if pid == 0:
        os.close(r)
        code = 0
        try:
            faulthandler.enable()
            res = fn(arg)
            data = pickle.dumps(("ok", res), protocol=4)
        except BaseException:  # noqa: BLE001
            data = pickle.dumps(("crash", traceback.format_exc()), protocol=4)
            code = 3
        try:
            with os.fdopen(w, "wb") as f:
                f.write(data)
        finally:
            os._exit(code)
    os.close(w)
    chunks = []
    # The watchdog counts the child's own CPU time (so a machine that is busy with other
    # jobs cannot turn a slow run into a harness error); a run that burns no CPU - a hang -
    # is stopped by the wall-clock limit of four times that.
    deadline = time.monotonic() + 4.0 * timeout
    tick = os.sysconf("SC_CLK_TCK") if hasattr(os, "sysconf") else 100
    status = None
    with os.fdopen(r, "rb") as f:
        while True:
            left = deadline - time.monotonic()
            if left <= 0:
                status = "timeout"
                break
            try:
                with open(f"/proc/{pid}/stat") as st:
                    fields = st.read().rsplit(")", 1)[1].split()
                if (int(fields[11]) + int(fields[12])) / tick > timeout:
                    status = "timeout"
                    break
            except Exception:  # noqa: BLE001
                pass
            rl, _, _ = select.select([f], [], [], min(left, 1.0))
            if rl:
                b = f.read1(1 << 20) if hasattr(f, "read1") else f.read(1 << 20)
                if not b:
                    break
                chunks.append(b)
    if status == "timeout":
        try:
            os.kill(pid, signal.SIGKILL)
        except ProcessLookupError:
            pass
        os.waitpid(pid, 0)
        return "timeout", f"run exceeded {timeout}s of CPU time or {4 * timeout}s wall clock"
    os.waitpid(pid, 0)
    if not chunks:
        return "crash", "child died without a result (signal?)"
    try:
        return pickle.loads(b"".join(chunks))
    except Exception as e:  # noqa: BLE001
        return "crash", f"unreadable child result: {e!r}"


# --------------------------------------------------------------------------- one run


def _viol_key(v):
    # the exception type is part of the identity of a violation: a reduction that turns the
    # failure into another exception (e.g. an out-of-domain parameter combination) is not kept
    return (v.get("clause"), v.get("cls"), (v.get("facts") or {}).get("exc"))


_COV = {"on": False, "lines": set(), "prefix": None}


def _cov_start():
    """Cheap line coverage of skmatter through sys.monitoring (each line reports once)."""
    import skmatter

    mon = sys.monitoring
    _COV["prefix"] = os.path.dirname(os.path.realpath(skmatter.__file__)) + os.sep
    try:
        mon.use_tool_id(mon.COVERAGE_ID, "hostsim")
    except ValueError:
        return False
    pre = _COV["prefix"]
    lines = _COV["lines"]

    def on_line(code, line):
        fn = code.co_filename
        if fn.startswith(pre):
            lines.add((fn[len(pre):], line))
        return mon.DISABLE

    mon.register_callback(mon.COVERAGE_ID, mon.events.LINE, on_line)
    mon.set_events(mon.COVERAGE_ID, mon.events.LINE)
    _COV["on"] = True
    return True


def _cov_stop():
    if not _COV["on"]:
        return []
    mon = sys.monitoring
    mon.set_events(mon.COVERAGE_ID, 0)
    mon.register_callback(mon.COVERAGE_ID, mon.events.LINE, None)
    mon.free_tool_id(mon.COVERAGE_ID)
    _COV["on"] = False
    out = sorted(_COV["lines"])
    _COV["lines"] = set()
    return out


def executable_lines(prefix, files):
    """Executable line numbers per file (from compiled code objects)."""
    out = {}
    for f in files:
        path = os.path.join(prefix, f)
        try:
            code = compile(open(path).read(), path, "exec")
        except Exception:  # noqa: BLE001
            continue
        lines = set()
        stack = [code]
        while stack:
            c = stack.pop()
            for _, _, ln in c.co_lines():
                if ln is not None:
                    lines.add(ln)
            for k in c.co_consts:
                if hasattr(k, "co_lines"):
                    stack.append(k)
        out[f] = lines
    return out


def _exec_trace(args):
    scenario, trace = args
    cov = trace.get("meta", {}).get("coverage")
    if cov:
        _cov_start()
    res = scenario.execute(trace)
    if cov:
        res["cov_lines"] = _cov_stop()
    return res


def _do_run(scenario, seed, tier, idx, faults, timeout):
    rseed = H(seed, scenario.pid, tier, "faults" if faults else "quiet", idx)
    trace = scenario.generate(random.Random(rseed), idx, tier, faults)
    trace["meta"] = {
        "property": scenario.pid,
        "verif_seed": seed,
        "tier": tier,
        "run_index": idx,
        "faults": bool(faults),
        "run_seed": rseed,
        "coverage": bool(idx % 4 == 0),
    }
    status, res = run_isolated(_exec_trace, (scenario, trace), timeout)
    out = {"idx": idx, "faults": faults, "status": status}
    if status != "ok":
        out["error"] = res
        out["trace"] = trace
        return out
    out["result"] = res
    if idx % 997 < 3:
        # determinism canary on every check run: the same trace again, in another child
        st2, res2 = run_isolated(_exec_trace, (scenario, trace), timeout)
        if st2 != "ok" or res2["digest"] != res["digest"]:
            out["status"] = "nondeterministic"
            out["error"] = f"re-execution gave {st2} digest {res2.get('digest') if st2 == 'ok' else res2} vs {res['digest']}"
            out["trace"] = trace
            return out
        res["counters"] = dict(res.get("counters", {}), determinism_canaries=1)
    if res["violations"]:
        out["trace"] = trace
    elif idx < 3:
        out["sample"] = scenario.describe(trace, res)
    return out


def run_slice(args):
    scenario, seed, tier, items, timeout, tmpbase = args
    os.environ["HOSTSIM_TMP"] = tmpbase
    known = load_known()
    outs = []
    cov = set()
    for idx, faults in items:
        o = _do_run(scenario, seed, tier, idx, faults, timeout)
        if o["status"] == "ok" and o["result"]["violations"]:
            unk = [v for v in o["result"]["violations"] if match_known(known, scenario.pid, v) is None]
            if unk:
                try:
                    o["minimised"] = minimise(scenario, o["trace"], unk[0], timeout, known=known)
                except Exception:  # noqa: BLE001
                    o["minimise_error"] = traceback.format_exc()
        if o["status"] == "ok" and "cov_lines" in o["result"]:
            cov.update(map(tuple, o["result"].pop("cov_lines")))
        outs.append(o)
    if outs:
        outs[0]["cov_union"] = sorted(cov)
    return outs


# --------------------------------------------------------------------------- minimiser


def minimise(scenario, trace, viol, timeout, budget_s=40.0, max_execs=150, known=()):
    """Greedy delta debugging over scenario-provided reductions, keeping a candidate
    only if it fails with the same (clause, class)."""
    key = _viol_key(viol)
    t0 = time.monotonic()
    execs = 0
    cur = trace
    cur_v = viol
    digest = None
    improved = True
    while improved and time.monotonic() - t0 < budget_s and execs < max_execs:
        improved = False
        for cand in scenario.reductions(cur):
            if time.monotonic() - t0 > budget_s or execs >= max_execs:
                break
            execs += 1
            status, res = run_isolated(_exec_trace, (scenario, cand), timeout)
            if status != "ok":
                continue
            match = [
                v
                for v in res["violations"]
                if _viol_key(v) == key and match_known(known, scenario.pid, v) is None
            ]
            if match:
                cur = cand
                cur_v = match[0]
                digest = res["digest"]
                improved = True
                break
    return {"trace": cur, "violation": cur_v, "execs": execs, "digest": digest}


# --------------------------------------------------------------------------- known findings


def load_known():
    if os.environ.get("HOSTSIM_NO_KNOWN") == "1":  # development aid: witnesses for known findings
        return []
    p = os.environ.get("HOSTSIM_KNOWN_FILE") or os.path.join(VERIF, "known_findings.json")
    if not os.path.exists(p):
        return []
    with open(p) as f:
        return json.load(f).get("findings", [])


def match_known(known, pid, v):
    for k in known:
        if k.get("status") != "known" or k.get("property") != pid:
            continue
        facts = v.get("facts", {})
        m = k.get("match", {})
        if k.get("clause") == v.get("clause") and all(facts.get(a) == b for a, b in m.items()):
            return k
    return None


# --------------------------------------------------------------------------- main driver


def add_common_args(ap):
    ap.add_argument("--tier", default=os.environ.get("VERIF_TIER", "quick"), choices=["quick", "thorough"])
    ap.add_argument("--runs", type=int, default=None, help="override number of runs")
    ap.add_argument("--replay", default=None)
    ap.add_argument("--workers", type=int, default=int(os.environ.get("HOSTSIM_WORKERS", "16")))
    ap.add_argument("--budget", type=float, default=None, help="wall seconds after which no new slice starts")
    ap.add_argument("--no-evidence", action="store_true")
    ap.add_argument("--digests", default=None, help="write per-run digests to this file (determinism tools)")
    ap.add_argument("--first", type=int, default=0, help="first run index")


def replay(scenario, path):
    with open(path) as f:
        rp = json.load(f)
    trace = rp["trace"]
    status, res = run_isolated(_exec_trace, (scenario, trace), 300.0)
    if status != "ok":
        print(f"HARNESS-ERROR: replay {status}: {res}")
        return 2
    exp = rp.get("violation", {})
    print(f"replay digest={res['digest']} expected={rp.get('digest')}")
    known = load_known()
    rc = 0
    same_key = [v for v in res["violations"] if _viol_key(v)[:2] == (exp.get("clause"), exp.get("cls"))]
    if same_key:
        v = same_key[0]
        print(f"reproduced: clause={v['clause']} cls={v.get('cls')} detail={v.get('detail')}")
    elif res["violations"]:
        print("the recorded violation is not reproduced, but the trace violates the property differently")
    else:
        print("not reproduced: the trace executes without violation on this tree")
    seen = set()
    for v in res["violations"]:
        k = match_known(known, scenario.pid, v)
        if k is not None:
            if k["id"] not in seen:
                seen.add(k["id"])
                print(f"KNOWN-FINDING: property={scenario.pid} {k['what']}")
        else:
            rc = 1
            print(f"  clause={v['clause']} cls={v.get('cls')} detail={str(v.get('detail'))[:300]}")
    if rc:
        print(f"VIOLATION property={scenario.pid} replay={path}")
    return rc


def main(scenario, argv=None):
    sys.argv_orig = list(sys.argv)
    ensure_process_env()
    ap = argparse.ArgumentParser(prog=f"checks.{scenario.pid.lower()}")
    add_common_args(ap)
    args = ap.parse_args(argv)
    if args.replay:
        sys.exit(replay(scenario, args.replay))
    seed = int(os.environ.get("VERIF_SEED", "20261004"))
    tier = args.tier
    plan = scenario.plan(tier)  # dict(quiet=N, faults=M, timeout=s, budget=s)
    if args.runs is not None:
        tot = plan["quiet"] + plan["faults"]
        fq = plan["quiet"] / tot
        plan["quiet"] = int(round(args.runs * fq))
        plan["faults"] = args.runs - plan["quiet"]
    budget = args.budget if args.budget is not None else plan.get("budget", 1e9)
    t0 = time.monotonic()
    items = [(args.first + i, False) for i in range(plan["quiet"])] + [
        (args.first + i, True) for i in range(plan["faults"])
    ]
    # interleave quiet and fault runs so that a budget stop keeps both batches
    items.sort(key=lambda t: (t[0], t[1]))
    slice_n = plan.get("slice", 16)
    slices = [items[i : i + slice_n] for i in range(0, len(items), slice_n)]
    tmpbase = tempfile.mkdtemp(prefix="hostsim_")
    preload(scenario)
    results = []
    skipped = 0
    harness_errors = []
    try:
        ctx = get_context("fork")
        with ProcessPoolExecutor(max_workers=args.workers, mp_context=ctx) as ex:
            futs = []
            it = iter(slices)
            # keep a bounded queue so that the budget can stop dispatch
            import concurrent.futures as cf

            pending = set()
            done_all = False
            while not done_all:
                while len(pending) < args.workers * 2:
                    if time.monotonic() - t0 > budget:
                        break
                    try:
                        sl = next(it)
                    except StopIteration:
                        break
                    pending.add(
                        ex.submit(run_slice, (scenario, seed, tier, sl, plan.get("timeout", 120.0), tmpbase))
                    )
                if not pending:
                    break
                dn, pending = cf.wait(pending, return_when=cf.FIRST_COMPLETED)
                for f in dn:
                    try:
                        results.extend(f.result())
                    except Exception:  # noqa: BLE001
                        harness_errors.append(traceback.format_exc())
            skipped = sum(len(s) for s in it)
    finally:
        shutil.rmtree(tmpbase, ignore_errors=True)
    wall = time.monotonic() - t0
    results.sort(key=lambda o: (o["idx"], o["faults"]))
    rc = report(scenario, seed, tier, results, wall, skipped, harness_errors, args)
    sys.exit(rc)


def _coverage_report(scenario, cov):
    """Executed / executable lines of the files the property anchors (measured with
    sys.monitoring on every 4th run)."""
    import skmatter

    prefix = os.path.dirname(os.path.realpath(skmatter.__file__))
    files = scenario.anchor_files() if hasattr(scenario, "anchor_files") else []
    ex = executable_lines(prefix, files)
    hit = {}
    for f, ln in cov:
        hit.setdefault(f, set()).add(ln)
    out = {}
    for f in files:
        tot = ex.get(f, set())
        h = hit.get(f, set()) & tot
        out[f] = {
            "executed": len(h),
            "executable": len(tot),
            "percent": round(100.0 * len(h) / max(1, len(tot)), 1),
            "not_executed_lines": _ranges(sorted(tot - h)),
        }
    return out


def _ranges(lines):
    """Compact 'a-b,c' rendering of a sorted list of line numbers (def/class/import lines
    executed at import time are never counted as executed)."""
    out, i = [], 0
    while i < len(lines):
        j = i
        while j + 1 < len(lines) and lines[j + 1] == lines[j] + 1:
            j += 1
        out.append(str(lines[i]) if i == j else f"{lines[i]}-{lines[j]}")
        i = j + 1
    return ",".join(out)


def report(scenario, seed, tier, results, wall, skipped, harness_errors, args):
    pid = scenario.pid
    known = load_known()
    fired = Counter()
    probes = Counter()
    sigs = set()
    nontrivial_sigs = set()
    sim_seconds = 0.0
    events = 0
    nq = nf = 0
    viol_lines = []
    known_lines = {}
    nviol = 0
    samples = []
    extra = Counter()
    digests = []
    replay_dir = os.path.join(os.environ.get("HOSTSIM_REPLAY_DIR") or os.path.join(VERIF, "replays"), pid)
    cov = set()
    for o in results:
        cov.update(map(tuple, o.pop("cov_union", [])))
        if o["status"] != "ok":
            harness_errors.append(f"run {o['idx']} faults={o['faults']}: {o['status']}: {o['error']}")
            os.makedirs(replay_dir, exist_ok=True)
            p = os.path.join(replay_dir, f"harness_{o['status']}_{o['idx']}_{int(o['faults'])}.json")
            jdump({"trace": o["trace"], "violation": {}, "note": str(o["error"])[:2000]}, p)
            continue
        r = o["result"]
        digests.append((o["idx"], int(o["faults"]), r["digest"]))
        if o["faults"]:
            nf += 1
        else:
            nq += 1
        fired.update(r["fired"])
        probes.update(r["probes"])
        extra.update(r.get("counters", {}))
        sim_seconds += r.get("sim_seconds", 0.0)
        events += r.get("events", 0)
        sigs.add(r["signature"])
        if r.get("nontrivial"):
            nontrivial_sigs.add(r["signature"])
        if "sample" in o and len(samples) < 4:
            samples.append(o["sample"])
        if r["violations"]:
            unk = []
            for x in r["violations"]:
                k = match_known(known, pid, x)
                if k is None:
                    unk.append(x)
                else:
                    known_lines.setdefault(k["id"], [k, 0])[1] += 1
            if not unk:
                continue
            mn = o.get("minimised") or {"trace": o["trace"], "violation": unk[0], "execs": 0, "digest": r["digest"]}
            v = mn["violation"]
            nviol += 1
            os.makedirs(replay_dir, exist_ok=True)
            p = os.path.join(replay_dir, f"viol_{tier}_{seed}_{o['idx']}_{int(o['faults'])}.json")
            jdump(
                {
                    "property": pid,
                    "violation": v,
                    "trace": mn["trace"],
                    "original_trace_ops": len(o["trace"].get("ops", [])),
                    "minimise_execs": mn.get("execs", 0),
                    "digest": mn.get("digest") or r["digest"],
                    "replay_cmd": f"cd /verif && /venv/bin/python -m checks.{pid.lower()} --replay {p}",
                },
                p,
            )
            viol_lines.append((p, v))
    for kid, (k, cnt) in sorted(known_lines.items()):
        print(f"KNOWN-FINDING: property={pid} {k['what']} [{kid}; hit in {cnt} runs]")
    for p, v in viol_lines[:20]:
        print(f"  clause={v['clause']} cls={v.get('cls')} detail={str(v.get('detail'))[:300]}")
        print(f"VIOLATION property={pid} replay={p}")
    for e in harness_errors[:10]:
        print("HARNESS-ERROR:", str(e)[:1500])
    n = nq + nf
    ev = {
        "property_id": pid,
        "tier": tier,
        "seed": seed,
        "level": "exploration",
        "wall_s": round(wall, 2),
        "violations": nviol,
        "coverage": {
            "evaluations": n,
            "distinct_nontrivial": len(nontrivial_sigs),
            "rule": scenario.rule(),
            "samples": samples or ["(no sample collected)"],
            "runs_fault_free": nq,
            "runs_fault_injecting": nf,
            "runs_skipped_by_budget": skipped,
            "runs_per_hour": int(n / wall * 3600) if wall > 0 else 0,
            "seeds_per_hour_note": "one VERIF_SEED per invocation; each run derives its own seed H(VERIF_SEED, property, tier, batch, index)",
            "simulated_seconds": round(sim_seconds, 6),
            "events_executed": events,
            "faults_fired": dict(sorted(fired.items())),
            "probes_hit": dict(sorted(probes.items())),
            "distinct_run_signatures": len(sigs),
            "counters": dict(sorted(extra.items())),
            "known_findings_hit": {kid: c for kid, (k, c) in known_lines.items()},
            "real_components": scenario.real_components(),
            "stub_components": scenario.stub_components(),
            "harness_errors": len(harness_errors),
            "anchored_source_line_coverage": _coverage_report(scenario, cov),
            "exhaustive": False,
        },
        "assumptions": scenario.assumptions(),
    }
    if args.digests:
        jdump(digests, args.digests)
    if not args.no_evidence:
        os.makedirs(os.path.join(VERIF, "evidence"), exist_ok=True)
        jdump(ev, os.path.join(VERIF, "evidence", f"{pid}.json"), indent=1)
    print(
        f"{pid} {tier}: runs={n} (quiet {nq}, faults {nf}, skipped {skipped}) wall={wall:.1f}s "
        f"violations={nviol} known={sum(c for _, c in known_lines.values())} "
        f"signatures={len(sigs)} nontrivial={len(nontrivial_sigs)} harness_errors={len(harness_errors)}"
    )
    stuck = [p for p in scenario.required_probes(tier) if probes.get(p, 0) == 0]
    if stuck:
        print("PROBE-STUCK-AT-ZERO:", ", ".join(stuck))
    if nviol:
        return 1
    if harness_errors or n == 0:
        return 2
    return 0
