"""C09: a simulated host process around every public entry point of skmatter.

Caller-owned arrays live on a snapshotted heap (C/F/strided view/read-only/read-only
memmap); estimator objects go through fit/refit/read/restart histories under a moving
environment (clock, ambient RNG, ARPACK start vectors, joblib schedule, stderr faults,
interruption at an arbitrary line). Checked after every event: heap integrity; after
every fit: parameter stability; after refits: equality with a fresh twin; across
environments: repeatability; fit returns self, fit_transform == fit().transform().
"""

import copy
import importlib
import pickle

import numpy as np

from . import data as D
from .env import (
    ClockReadCap,
    Env,
    InjectedInterrupt,
    InjectedMemoryError,
    is_injected,
    new_stats,
)
from .util import Digest

# =========================================================================== catalog

SELECTORS = {
    "feature.FPS": ("skmatter.feature_selection", "FPS", 1),
    "sample.FPS": ("skmatter.sample_selection", "FPS", 0),
    "feature.PCovFPS": ("skmatter.feature_selection", "PCovFPS", 1),
    "sample.PCovFPS": ("skmatter.sample_selection", "PCovFPS", 0),
    "feature.CUR": ("skmatter.feature_selection", "CUR", 1),
    "sample.CUR": ("skmatter.sample_selection", "CUR", 0),
    "feature.PCovCUR": ("skmatter.feature_selection", "PCovCUR", 1),
    "sample.PCovCUR": ("skmatter.sample_selection", "PCovCUR", 0),
    "sample.VoronoiFPS": ("skmatter.sample_selection", "VoronoiFPS", 0),
}
OTHERS = {
    "DirectionalConvexHull": ("skmatter.sample_selection", "DirectionalConvexHull"),
    "PCovR": ("skmatter.decomposition", "PCovR"),
    "KernelPCovR": ("skmatter.decomposition", "KernelPCovR"),
    "StandardFlexibleScaler": ("skmatter.preprocessing", "StandardFlexibleScaler"),
    "KernelNormalizer": ("skmatter.preprocessing", "KernelNormalizer"),
    "SparseKernelCenterer": ("skmatter.preprocessing", "SparseKernelCenterer"),
    "Ridge2FoldCV": ("skmatter.linear_model", "Ridge2FoldCV"),
    "OrthogonalRegression": ("skmatter.linear_model", "OrthogonalRegression"),
    "SparseKDE": ("skmatter.neighbors", "SparseKDE"),
    "QuickShift": ("skmatter.clustering", "QuickShift"),
}
FUNCS = {
    "pointwise_global_reconstruction_error": "skmatter.metrics",
    "global_reconstruction_error": "skmatter.metrics",
    "pointwise_global_reconstruction_distortion": "skmatter.metrics",
    "global_reconstruction_distortion": "skmatter.metrics",
    "pointwise_local_reconstruction_error": "skmatter.metrics",
    "local_reconstruction_error": "skmatter.metrics",
    "local_prediction_rigidity": "skmatter.metrics",
    "componentwise_prediction_rigidity": "skmatter.metrics",
    "periodic_pairwise_euclidean_distances": "skmatter.metrics",
    "pairwise_mahalanobis_distances": "skmatter.metrics",
    "X_orthogonalizer": "skmatter.utils",
    "Y_feature_orthogonalizer": "skmatter.utils",
    "Y_sample_orthogonalizer": "skmatter.utils",
    "pcovr_covariance": "skmatter.utils",
    "pcovr_kernel": "skmatter.utils",
    "train_test_split": "skmatter.model_selection",
    "effdim": "skmatter.utils",
    "oas": "skmatter.utils",
    "check_lr_fit": "skmatter.utils",
    "check_krr_fit": "skmatter.utils",
}
ALL_CLASSES = list(SELECTORS) + list(OTHERS)


def get_class(kind):
    if kind in SELECTORS:
        mod, name, _ = SELECTORS[kind]
    else:
        mod, name = OTHERS[kind]
    return getattr(importlib.import_module(mod), name)


def get_func(name):
    return getattr(importlib.import_module(FUNCS[name]), name)


def make_estimator(spec):
    """sklearn estimators used as constructor arguments (regressors)."""
    name, kw = spec
    if name == "Ridge":
        from sklearn.linear_model import Ridge

        return Ridge(**kw)
    if name == "LinearRegression":
        from sklearn.linear_model import LinearRegression

        return LinearRegression(**kw)
    if name == "KernelRidge":
        from sklearn.kernel_ridge import KernelRidge

        return KernelRidge(**kw)
    if name == "Ridge2FoldCV":
        from skmatter.linear_model import Ridge2FoldCV

        return Ridge2FoldCV(**kw)
    if name == "StandardFlexibleScaler":
        from skmatter.preprocessing import StandardFlexibleScaler

        return StandardFlexibleScaler(**kw)
    raise ValueError(name)


# =========================================================================== comparison


def public_state(obj):
    """Public fitted attributes: names ending with '_' and not starting with '_'."""
    out = {}
    for k, v in vars(obj).items():
        if k.endswith("_") and not k.startswith("_"):
            out[k] = v
    return out


def ctor_state(obj, extra=None):
    """Constructor hyper-parameters: get_params for estimators, else the plain public
    attributes that existed right after construction. `extra`: names of public attributes
    that existed right after construction but are hidden from get_params (VoronoiFPS takes
    the inherited parameters through **kwargs) - None means 'collect them now'."""
    gp = getattr(obj, "get_params", None)
    plain = {k: v for k, v in vars(obj).items() if not k.startswith("_") and not k.endswith("_")}
    if gp is not None:
        try:
            out = dict(gp(deep=True))
            for k in (plain if extra is None else extra):
                if k not in out and k in plain:
                    out[k] = plain[k]
            return out
        except Exception:  # noqa: BLE001
            pass
    return plain


def freeze(v, depth=0):
    """Deep, comparable snapshot of a parameter value."""
    if isinstance(v, np.ndarray):
        return ("nd", str(v.dtype), v.shape, v.tobytes())
    if isinstance(v, (list, tuple)):
        return (type(v).__name__, tuple(freeze(x, depth + 1) for x in v))
    if isinstance(v, dict):
        return ("dict", tuple((str(k), freeze(x, depth + 1)) for k, x in sorted(v.items(), key=lambda t: str(t[0]))))
    if isinstance(v, (int, float, str, bool, type(None), np.integer, np.floating)):
        return ("s", repr(v))
    if hasattr(v, "get_params"):
        try:
            # an estimator-valued hyper-parameter: its own parameters and WHETHER it carries
            # fitted state (the names of its fitted attributes) - fit must work on a clone,
            # not fit the caller's object
            fitted = tuple(sorted(k for k in vars(v) if k.endswith("_") and not k.startswith("_")))
            return ("est", type(v).__name__, freeze(v.get_params(deep=True), depth + 1), fitted)
        except Exception:  # noqa: BLE001
            return ("est", type(v).__name__)
    if callable(v):
        return ("callable",)
    return ("r", type(v).__name__)


DATA_SCALE = [1.0]  # largest magnitude on the caller heap of the current run
EXTRA_ATOL = [0.0]  # additional absolute allowance for one comparison (see compare_lanes)
SCALE_ATOL = [1e-9]  # absolute allowance as a fraction of the largest entry compared


def same(a, b, rtol=1e-7, path=""):
    """Numerical equality to rounding; returns None or a description of the difference."""
    if isinstance(a, np.ndarray) or isinstance(b, np.ndarray):
        if not (isinstance(a, np.ndarray) and isinstance(b, np.ndarray)):
            try:
                a, b = np.asarray(a), np.asarray(b)
            except Exception:  # noqa: BLE001
                return f"{path}: {type(a).__name__} vs {type(b).__name__}"
        if a.shape != b.shape:
            return f"{path}: shape {a.shape} vs {b.shape}"
        if a.dtype.kind in "fc" or b.dtype.kind in "fc":
            af, bf = a.astype(float), b.astype(float)
            fin = np.isfinite(af) & np.isfinite(bf)
            if not np.array_equal(np.isfinite(af), np.isfinite(bf)):
                return f"{path}: finite pattern differs"
            scale = float(np.max(np.abs(bf[fin]))) if np.any(fin) else 1.0
            if np.any(fin) and not np.allclose(af[fin], bf[fin], rtol=rtol, atol=SCALE_ATOL[0] * scale + 1e-12 * max(DATA_SCALE[0], DATA_SCALE[0] ** 2) + EXTRA_ATOL[0]):
                return f"{path}: max abs diff {float(np.max(np.abs(af[fin] - bf[fin]))):.3g} (scale {scale:.3g})"
            return None
        if a.dtype == object or b.dtype == object:
            return None
        return None if np.array_equal(a, b) else f"{path}: integer/bool arrays differ {a.ravel()[:8].tolist()} vs {b.ravel()[:8].tolist()}"
    if isinstance(a, (list, tuple)) and isinstance(b, (list, tuple)):
        if len(a) != len(b):
            return f"{path}: length {len(a)} vs {len(b)}"
        for i, (x, y) in enumerate(zip(a, b)):
            d = same(x, y, rtol, f"{path}[{i}]")
            if d:
                return d
        return None
    if isinstance(a, dict) and isinstance(b, dict):
        if set(a) != set(b):
            return f"{path}: keys {sorted(map(str, set(a) ^ set(b)))} on one side only"
        for k in a:
            d = same(a[k], b[k], rtol, f"{path}.{k}")
            if d:
                return d
        return None
    num = (int, float, np.integer, np.floating)
    if isinstance(a, num) and isinstance(b, num) and not isinstance(a, bool):
        return same(np.asarray(float(a)), np.asarray(float(b)), rtol, path)
    if hasattr(a, "get_params") and hasattr(b, "get_params"):
        if type(a) is not type(b):
            return f"{path}: {type(a).__name__} vs {type(b).__name__}"
        return same(public_state(a), public_state(b), rtol, path + "<est>")
    if type(a).__name__ == "ConvexHull" and type(b).__name__ == "ConvexHull":
        return same(np.sort(a.vertices), np.sort(b.vertices), rtol, path + ".vertices")
    if callable(a) and callable(b):
        return None
    if isinstance(a, (str, bool, type(None))) or isinstance(b, (str, bool, type(None))):
        return None if a == b else f"{path}: {a!r} vs {b!r}"
    if type(a) is not type(b):
        return f"{path}: {type(a).__name__} vs {type(b).__name__}"
    return None


def _sk_config():
    try:
        import sklearn

        return dict(sklearn.get_config())
    except Exception:  # noqa: BLE001
        return {}


# =========================================================================== world


class PurityWorld:
    def __init__(self, trace):
        self.trace = trace
        self.stats = new_stats()
        self.env = Env(self.stats)
        self.heap = D.Heap()
        self.pylists = {}  # name -> (list object, snapshot)
        self.roles = {k: v.get("role", "array") for k, v in trace["heap"].items()}
        self.objs = {}
        self.meta = {}
        self.violations = []
        self.log = Digest()
        self.counters = {}
        self.events = 0
        self.results = {}  # (lane, op tag) -> result for repeatability
        self.readonly_args = False
        self._proc0 = (dict(np.geterr()), _sk_config())

    def count(self, k, n=1):
        self.counters[k] = self.counters.get(k, 0) + n

    def probe(self, k):
        self.stats["probes"][k] += 1

    def violate(self, clause, cls, detail, **facts):
        facts = dict(facts)
        facts.setdefault("cls", cls)
        if cls == "sample.VoronoiFPS":
            # was the switching point left to the timing calibration in this trace?
            facts["calibrated_full_fraction"] = any(
                o["op"] == "NEW" and o["kind"] == cls and "full_fraction" not in o["params"] for o in self.trace["ops"]
            )
        self.violations.append({"clause": clause, "cls": cls, "detail": detail, "facts": facts})

    # ---- values
    def resolve(self, v, fresh=False):
        """Turn trace references into live objects. fresh=True gives pristine private
        copies (used for the history-free twin)."""
        if isinstance(v, dict):
            if "$h" in v:
                if fresh:
                    return self.heap.twin_copy(v["$h"])
                return self.heap.get(v["$h"])
            if "$hl" in v:
                return [self.resolve({"$h": n}, fresh) for n in v["$hl"]]
            if "$pylist" in v:
                name = v["$pylist"]
                vals = [int(x) for x in self.heap.pristine(name).ravel()]
                if fresh:
                    return list(vals)
                if name not in self.pylists:
                    self.pylists[name] = (list(vals), list(vals))
                return self.pylists[name][0]
            if "$est" in v:
                return make_estimator(v["$est"])
            if "$cell" in v:
                return np.array(v["$cell"], dtype=float)
            if "$npint" in v:
                return getattr(np, v.get("dtype", "int64"))(v["$npint"])
            if "$npfloat" in v:
                return getattr(np, v.get("dtype", "float64"))(v["$npfloat"])
            if "$fraction" in v:
                from fractions import Fraction

                return Fraction(int(v["$fraction"][0]), int(v["$fraction"][1]))
            if "$dict" in v:
                return {k: self.resolve(x, fresh) for k, x in v["$dict"].items()}
            return {k: self.resolve(x, fresh) for k, x in v.items()}
        if isinstance(v, list):
            return [self.resolve(x, fresh) for x in v]
        return v

    def arg_names(self, args):
        out = []

        def walk(v):
            if isinstance(v, dict):
                for k in ("$h", "$pylist"):
                    if k in v:
                        out.append(v[k])
                if "$hl" in v:
                    out.extend(v["$hl"])
                for x in v.values():
                    walk(x)
            elif isinstance(v, list):
                for x in v:
                    walk(x)

        walk(args)
        return out

    # ---- clause 1: heap integrity
    def check_process_state(self, what, cls):
        """Ambient state of the process that decides how LATER calls behave must be put back:
        numpy's floating-point error handling (np.seterr) and scikit-learn's global
        configuration. A call that leaves them changed makes the next identical call behave
        differently (e.g. raise FloatingPointError) - 'repeating a call gives the same result'."""
        now = (dict(np.geterr()), _sk_config())
        if getattr(self, "_proc0", None) is None:
            self._proc0 = now
            return
        if now != self._proc0:
            diff = {k: (self._proc0[0].get(k), v) for k, v in now[0].items() if self._proc0[0].get(k) != v}
            diff.update({k: (self._proc0[1].get(k), v) for k, v in now[1].items() if self._proc0[1].get(k) != v})
            self.violate(
                "process_state_changed",
                cls,
                f"{what}: left the process-wide settings changed (old, new): {diff} - later calls with the same inputs behave differently",
            )
            np.seterr(**self._proc0[0])
            try:
                import sklearn

                sklearn.set_config(**self._proc0[1])
            except Exception:  # noqa: BLE001
                pass

    def check_heap(self, what, cls, args=None, exc=None):
        self.check_process_state(what, cls)
        bad = self.heap.check()
        for name, (lst, snap) in self.pylists.items():
            if lst != snap:
                bad.append((name, "list"))
                self.pylists[name] = (list(snap), list(snap))
        used = set(self.arg_names(args)) if args is not None else set()
        for name, how in bad:
            self.violate(
                "caller_array_modified",
                cls,
                f"{what}: the caller's array '{name}' (role {self.roles.get(name)}, storage "
                f"{self.trace['heap'][name].get('storage', 'C')}) was modified ({how})"
                + ("" if name in used else " although it is not an argument of this call"),
                role=self.roles.get(name),
                what=what.split(" ")[0],
                is_argument=bool(name in used),
            )
            if how != "list":
                self.heap.restore(name)
                # live references held by objects keep pointing at the old array; fine
        if exc is not None and "read-only" in str(exc) and self.readonly_args:
            ro = [n for n in used if self.trace["heap"].get(n, {}).get("storage") in ("readonly", "memmap")]
            self.violate(
                "write_attempt_on_readonly_argument",
                cls,
                f"{what}: raised {type(exc).__name__}: {str(exc)[:120]} - an in-place write on a caller array was attempted "
                f"(read-only arguments: {ro}, roles {[self.roles.get(n) for n in ro]})",
                roles=sorted({str(self.roles.get(n)) for n in ro}),
                what=what.split(" ")[0],
            )

    # ---- clause 2: parameter stability
    def check_params(self, name, what, obj=None):
        m = self.meta[name]
        persist = obj is None
        obj = self.objs[name] if obj is None else obj
        try:
            now = {k: freeze(v) for k, v in ctor_state(obj, m.get("ctor_names", ())).items()}
        except Exception:  # noqa: BLE001
            return
        before = m["params0"]
        for k in sorted(set(before) | set(now)):
            if before.get(k) != now.get(k):
                pv = ctor_state(obj, m.get("ctor_names", ())).get(k)
                extra = ""
                b4, nw = before.get(k), now.get(k)
                if isinstance(b4, tuple) and isinstance(nw, tuple) and b4[:1] == ("est",) and nw[:1] == ("est",) and b4[:3] == nw[:3]:
                    extra = f" - the caller's estimator object was fitted in place (fitted attributes {list(b4[3])} -> {list(nw[3])}) instead of a clone"
                self.violate(
                    "hyperparameter_changed",
                    m["kind"],
                    f"{what}: constructor parameter '{k}' changed from {_brief(m['params0_raw'].get(k))} to {_brief(pv)}{extra}",
                    param=k,
                    before_form=type(m["params0_raw"].get(k)).__name__,
                    after_form=type(pv).__name__,
                )
                if persist:
                    m["params0"][k] = now.get(k)
                    # the object now carries a hyper-parameter it was not constructed with:
                    # a later refit starts from other settings than a fresh estimator, so
                    # comparing the two would only re-report this change in other words
                    m["params_changed_by_fit"] = True

    # ---- main
    def run(self):
        tr = self.trace
        DATA_SCALE[0] = 1.0
        for name, spec in tr["heap"].items():
            st = spec.get("storage", "C")
            if st in ("readonly", "memmap"):
                self.readonly_args = True
            arr = D.make_array(spec)
            if arr.dtype.kind == "f" and arr.size:
                DATA_SCALE[0] = max(DATA_SCALE[0], float(np.max(np.abs(arr))))
            self.heap.add(name, arr, st)
        self.env.install()
        try:
            for i, op in enumerate(tr["ops"]):
                self.events += 1
                getattr(self, "op_" + op["op"])(op, i)
            self.compare_lanes()
        finally:
            self.env.uninstall()
            self.heap.close()
        st = self.stats
        kinds = sorted({m["kind"] for m in self.meta.values()} | {o["fn"] for o in tr["ops"] if o["op"] == "FN"})
        opk = ",".join(o["op"] + (":" + o.get("method", "")[:6] if o["op"] == "CALL" else "") for o in tr["ops"])
        stor = ",".join(sorted({v.get("storage", "C") for v in tr["heap"].values()}))
        sig = "|".join([",".join(kinds), opk, stor, ",".join(sorted(st["fired"])), ",".join(sorted(st["probes"]))])
        return {
            "violations": self.violations,
            "digest": self.log.hexdigest(),
            "fired": dict(st["fired"]),
            "probes": dict(st["probes"]),
            "counters": self.counters,
            "sim_seconds": st["sim_seconds"],
            "events": self.events,
            "signature": sig,
            "nontrivial": bool(self.counters.get("ops_ok", 0) >= 1),
        }

    # ---- guarded execution of one call
    def guarded(self, fn, envspec, what, cls, args, target_for_dry=None, sweep=None, sweep_check=None):
        """Run fn() under the environment script; handles INTERRUPT injection.

        Returns (result, exc, injected: bool)."""
        envspec = envspec or {}
        itr = envspec.get("interrupt")
        out = None
        if itr:
            # dry run on a deep copy to learn the number of skmatter line events
            dry = target_for_dry() if target_for_dry else None
            n_lines = None
            if dry is not None:
                saved = copy.deepcopy({k: (dict(v) if hasattr(v, "items") else v) for k, v in self.stats.items()})
                try:
                    with self.env.op({k: v for k, v in envspec.items() if k not in ("interrupt", "stderr")}):
                        with self.env.interrupter.counting() as c:
                            try:
                                dry()
                            except Exception:  # noqa: BLE001
                                pass
                        n_lines = c.count
                finally:
                    for k, v in saved.items():
                        if hasattr(self.stats[k], "clear") and hasattr(v, "items"):
                            self.stats[k].clear()
                            self.stats[k].update(v)
                        else:
                            self.stats[k] = v
            if not n_lines:
                itr = None
                self.count("interrupt_not_armed")
            elif itr.get("all") and sweep is not None:
                # crash-point enumeration: the fault is injected at *every* skmatter line
                # event of this call, each time on a private copy of the object but on the
                # caller's real arrays; heap and parameters are checked after each crash
                excs = {"KeyboardInterrupt": InjectedInterrupt, "MemoryError": InjectedMemoryError}[itr["exc"]]
                # bounded, deterministic budget: all points for short calls, a thinning
                # grid for long ones (each point costs one traced execution of the call)
                points = min(int(itr.get("max_points", 400)), max(12, 150000 // max(1, n_lines)))
                step = max(1, n_lines // points)
                for k in range(1, n_lines + 1, step):
                    try:
                        call, target = sweep()
                    except Exception:  # noqa: BLE001
                        break
                    with self.env.op({kk: v for kk, v in envspec.items() if kk not in ("interrupt", "stderr")}):
                        try:
                            with self.env.interrupter.armed(k, excs):
                                call()
                        except (InjectedInterrupt, InjectedMemoryError):
                            pass
                        except Exception:  # noqa: BLE001
                            pass
                    self.count("crash_points_enumerated")
                    nv = len(self.violations)
                    self.check_heap(f"{what} interrupted at line event {k}/{n_lines}", cls, args)
                    if sweep_check is not None and target is not None:
                        sweep_check(target, f"{what} interrupted at line event {k}/{n_lines}")
                    if len(self.violations) > nv:
                        break
                self.probe("crash_points_enumerated_for_a_call")
                itr = None
        res, exc = None, None
        with self.env.op({k: v for k, v in envspec.items() if k != "interrupt"}) as out:
            try:
                if itr:
                    target = max(1, min(n_lines, int(round(itr["frac"] * n_lines))))
                    excs = {"KeyboardInterrupt": InjectedInterrupt, "MemoryError": InjectedMemoryError}[itr["exc"]]
                    with self.env.interrupter.armed(target, excs) as arm:
                        res = fn()
                    if not arm.fired:
                        self.count("interrupt_not_reached")
                else:
                    res = fn()
            except ClockReadCap as e:
                exc = e
            except (InjectedInterrupt, InjectedMemoryError) as e:
                exc = e
            except Exception as e:  # noqa: BLE001
                exc = e
        injected = False
        if exc is not None:
            st = (envspec.get("stderr") or {}).get("mode", "ok")
            if is_injected(exc):
                injected = True
            elif st == "none" and isinstance(exc, (AttributeError, TypeError)) and "NoneType" in str(exc):
                injected = True
        return res, exc, injected, out

    # ---- ops
    def op_NEW(self, op, i):
        name = op["obj"]
        kind = op["kind"]
        self.meta[name] = {
            "kind": kind,
            "params": op["params"],
            "retired": False,
            "fits": [],
            "lane": op.get("lane"),
            "reads": {},
        }
        kw = self.resolve(op["params"])
        try:
            obj = get_class(kind)(**kw)
        except Exception as e:  # noqa: BLE001
            self.objs[name] = None
            self.meta[name]["retired"] = True
            self.log.add("NEW", name, kind, "raise", type(e).__name__)
            self.check_heap(f"constructor {kind}", kind, op["params"], e)
            self.count("new_raised")
            self.count(f"raised:{kind}.__init__:{type(e).__name__}:{str(e)[:50]}")
            return
        self.objs[name] = obj
        raw = ctor_state(obj)
        self.meta[name]["ctor_names"] = tuple(raw)
        self.meta[name]["params0_raw"] = {k: _copy_param(v) for k, v in raw.items()}
        self.meta[name]["params0"] = {k: freeze(v) for k, v in raw.items()}
        self.log.add("NEW", name, kind)
        self.check_heap(f"constructor {kind}", kind, op["params"])

    def _fit_call(self, obj, kind, args, fresh=False):
        pos, a = split_args(self.resolve(args, fresh))
        return lambda: obj.fit(*pos, **a)

    def op_FIT(self, op, i):
        name = op["obj"]
        obj = self.objs.get(name)
        m = self.meta[name]
        if obj is None or m["retired"]:
            return
        kind = m["kind"]
        what = f"fit #{len(m['fits']) + 1} of {kind}"
        if kind == "SparseKDE":
            # domain guard (also for reduced traces): the grid is a subset of the estimator's
            # descriptors - on an unrelated grid the localisation search of the unchanged tree
            # need not terminate and nothing is specified
            try:
                G = np.asarray(self.resolve(op["args"]).get("X"), dtype=float)
                Dd = np.asarray(getattr(obj, "descriptors"), dtype=float)
                ok = G.ndim == 2 and Dd.ndim == 2 and G.shape[1] == Dd.shape[1] and all(np.any(np.all(Dd == g, axis=1)) for g in G)
                w_ = getattr(obj, "weights", None)
                if w_ is not None and np.size(w_) != Dd.shape[0]:
                    ok = False  # one weight per descriptor (a reduced re-parameterisation)
            except Exception:  # noqa: BLE001
                ok = True
            if not ok:
                self.count("out_of_domain_grid_not_among_the_descriptors")
                m["retired"] = True
                return

        def dry():
            o2 = copy.deepcopy(obj)
            return self._fit_call(o2, kind, op["args"], fresh=True)()

        def sweep():
            o2 = copy.deepcopy(obj)
            return self._fit_call(o2, kind, op["args"]), o2

        res, exc, injected, out = self.guarded(
            self._fit_call(obj, kind, op["args"]),
            op.get("env"),
            what,
            kind,
            op["args"],
            target_for_dry=lambda: dry,
            sweep=sweep,
            sweep_check=lambda o2, w: self.check_params(name, w, obj=o2),
        )
        m["fits"].append({"args": op["args"], "ok": exc is None, "env": op.get("env")})
        self.check_heap(what, kind, op["args"], exc)
        self.check_params(name, what + (" (interrupted)" if injected else ""))
        if exc is not None:
            self.log.add("FIT", name, "raise", type(exc).__name__)
            self.count("ops_injected_failure" if injected else "fits_raised")
            if not injected:
                self.count(f"raised:{kind}.fit:{type(exc).__name__}:{str(exc)[:50]}")
            if injected:
                # partially fitted: nothing is promised about this state, reads are skipped;
                # but a later fit of the object is again a fit of "a previously fitted
                # estimator" if an earlier fit had succeeded, and owes the fresh state
                m["broken"] = True
                m["crashed"] = True
                self.probe("fault_landed_inside_fit")
                return
            # a refit that raises where a fresh estimator succeeds is a violation
            if len(m["fits"]) > 1 and any(f["ok"] for f in m["fits"][:-1]) and not (op.get("env") or {}).get("stderr"):
                tw = self.twin(name, op)
                if tw is not None and tw[1] is None:
                    prev = [f for f in m["fits"][:-1] if f["ok"]][-1]
                    self.violate(
                        "refit_raises_fresh_succeeds",
                        kind,
                        f"{what} raised {type(exc).__name__}: {str(exc)[:160]} but a fresh estimator fits the same data; "
                        f"history: {_hist(m)}",
                        exc=type(exc).__name__,
                        transition=_transition(prev["args"], op["args"], self.trace),
                        reparam=m.get("reparam") or [],
                    )
            m["broken"] = True
            return
        m["broken"] = False
        if m.pop("crashed", False) and any(f["ok"] for f in m["fits"][:-1]):
            self.probe("refit_after_crashed_fit_compared_with_fresh_twin")
        self.count("ops_ok")
        self.count("fits_ok")
        if res is not obj:
            self.violate("fit_does_not_return_self", kind, f"{what} returned {type(res).__name__}")
        self.log.add("FIT", name, "ok", sorted(public_state(obj)))
        for k, v in sorted(public_state(obj).items()):
            if isinstance(v, np.ndarray) and v.dtype != object:
                self.log.add(k, v)  # exact bytes
            elif isinstance(v, (int, float, np.integer, np.floating)):
                self.log.add(k, v)
        if len(m["fits"]) > 1 and any(f["ok"] for f in m["fits"][:-1]):
            self.refit_vs_twin(name, op)

    def comparable(self, name, args):
        """Two executions of a CUR-family selector can only be compared where the scores
        are well defined: rank(X) above selections + k (beyond that the residual is
        rounding noise and ARPACK's answer depends on its hidden restart state)."""
        m = self.meta[name]
        kind = m["kind"]
        if kind not in SELECTORS or SELECTORS[kind][1] not in ("CUR", "PCovCUR"):
            return True
        try:
            obj = self.objs[name]
            ref = args.get("X") or (args.get("__pos__") or [None])[0]
            X = np.asarray(self.heap.pristine(ref["$h"]), dtype=float)
            sv = np.linalg.svd(X, compute_uv=False)
            rank = int(np.sum(sv > sv[0] * max(X.shape) * 2.2e-16 * 16)) if sv.size and sv[0] > 0 else 0
            need = int(getattr(obj, "n_selected_", 0)) + int(getattr(obj, "k", 1)) + 1
            ok = rank >= need
        except Exception:  # noqa: BLE001
            ok = False
        if not ok:
            self.count("selection_not_well_defined_skipped")
        return ok

    # ---- clause 3: refit == fresh twin
    def twin(self, name, op):
        m = self.meta[name]
        try:
            tw = get_class(m["kind"])(**self.resolve(m["params"], fresh=True))
        except Exception as e:  # noqa: BLE001
            return None
        env = {}
        for k in ("rng", "clock", "arpack"):
            if (op.get("env") or {}).get(k):
                env[k] = op["env"][k]
        exc = None
        saved_fired = dict(self.stats["fired"])
        with self.env.op(env or None):
            try:
                self._fit_call(tw, m["kind"], op["args"], fresh=True)()
            except Exception as e:  # noqa: BLE001
                exc = e
        self.stats["fired"].clear()
        self.stats["fired"].update(saved_fired)
        self.count("twin_fits")
        return tw, exc

    def refit_vs_twin(self, name, op):
        m = self.meta[name]
        obj = self.objs[name]
        kind = m["kind"]
        m["twin"] = None
        rp = m.pop("reparam", None)
        if m.get("params_changed_by_fit"):
            self.count("refit_not_compared_after_reported_parameter_change")
            return
        if not self.comparable(name, op["args"]):
            return
        t = self.twin(name, op)
        if t is None or t[1] is not None:
            self.count("twin_raised")
            return
        tw = t[0]
        prev = [f for f in m["fits"][:-1] if f["ok"]][-1]
        trans = _transition(prev["args"], op["args"], self.trace)
        if m.pop("mutated", False):
            trans = "same_buffer_new_values+" + trans
        if rp:
            trans = "reparam+" + trans
            for k in rp:
                self.count("reparam_then_refit_compared:" + k)
        self.probe("refit_compared:" + trans)
        a, b = public_state(obj), public_state(tw)
        only = sorted(set(a) ^ set(b))
        if only:
            self.violate(
                "refit_state_differs",
                kind,
                f"after refit ({_hist(m)}) the attributes {only} exist on one side only (refitted vs fresh estimator)",
                attrs=only,
                transition=trans,
                reparam=rp or [],
            )
        for k in sorted(set(a) & set(b)):
            d = same(a[k], b[k], path=k)
            if d:
                self.violate(
                    "refit_state_differs",
                    kind,
                    f"after refit ({_hist(m)}) attribute {d} between the refitted and a fresh estimator fitted on the new data only",
                    attrs=[k],
                    transition=trans,
                    reparam=rp or [],
                )
                break
        m["twin"] = tw

    def op_CALL(self, op, i):
        name = op["obj"]
        obj = self.objs.get(name)
        m = self.meta[name]
        if obj is None or m["retired"] or m.get("broken") or not any(f["ok"] for f in m["fits"]) and op["method"] not in ("fit_transform",):
            return
        kind = m["kind"]
        meth = op["method"]
        what = f"{meth} of {kind}"
        pos, a = split_args(self.resolve(op["args"]), meth)

        def call(o=obj, pos=pos, a=a):
            return getattr(o, meth)(*pos, **a)

        def dry():
            o2 = copy.deepcopy(obj)
            p2, a2 = split_args(self.resolve(op["args"], fresh=True), meth)
            return getattr(o2, meth)(*p2, **a2)

        def sweep():
            o2 = copy.deepcopy(obj)
            p3, a3 = split_args(self.resolve(op["args"]), meth)
            return (lambda: getattr(o2, meth)(*p3, **a3)), o2

        res, exc, injected, out = self.guarded(
            call,
            op.get("env"),
            what,
            kind,
            op["args"],
            target_for_dry=lambda: dry,
            sweep=sweep,
            sweep_check=lambda o2, w: self.check_params(name, w, obj=o2),
        )
        self.check_heap(what, kind, op["args"], exc)
        self.check_params(name, what)
        if exc is not None:
            self.log.add("CALL", name, meth, "raise", type(exc).__name__)
            self.count("ops_injected_failure" if injected else "calls_raised")
            if not injected:
                self.count(f"raised:{kind}.{meth}:{type(exc).__name__}:{str(exc)[:50]}")
            if injected:
                m["broken"] = True  # until the next successful fit
                m["crashed"] = True
            return
        self.count("ops_ok")
        self.log.add("CALL", name, meth, "ok")
        if isinstance(res, np.ndarray) and res.dtype != object:
            self.log.add(res)
        elif isinstance(res, (int, float, np.integer, np.floating)):
            self.log.add(res)
        tag = op.get("tag", meth)
        if op.get("again") and tag in m["reads"] and not (op.get("env") or {}).get("interrupt"):
            # the same read on the same fitted object, later in the process history (after other
            # reads, other objects' fits, another ambient RNG state): a read must not depend on
            # or change anything that an identical later read can see
            d = same(m["reads"][tag], res, rtol=1e-9, path=meth)
            if d:
                self.violate(
                    "read_repeat_differs",
                    kind,
                    f"{meth}() called twice with the same arguments on the same fitted object gives different results "
                    f"({op.get('again')}): {d}",
                    method=meth,
                    between=op.get("again"),
                )
            else:
                self.count("read_repeats_equal")
            self.probe("read_repeated:" + str(op.get("again")))
        # keep a private copy: some reads hand out the estimator's own arrays, and a later
        # read that rewrites them must not rewrite what an earlier read returned to us
        try:
            m["reads"][tag] = copy.deepcopy(res)
        except Exception:  # noqa: BLE001
            m["reads"][tag] = res
        if meth == "fit_transform":
            m["fits"].append({"args": op["args"], "ok": True, "env": op.get("env")})
        if meth == "fit_transform" and self.comparable(name, op["args"]):
            # fit_transform equals fit followed by transform (fresh twin, same environment seeds)
            try:
                tw = get_class(kind)(**self.resolve(m["params"], fresh=True))
                env = {k: v for k, v in (op.get("env") or {}).items() if k in ("rng", "clock", "arpack")}
                p2, a2 = split_args(self.resolve(op["args"], fresh=True))
                with self.env.op(env or None):
                    tw.fit(*p2, **a2)
                    exp = tw.transform(p2[0])
                d = same(np.asarray(res), np.asarray(exp), path="fit_transform")
                if d:
                    self.violate("fit_transform_differs", kind, f"fit_transform(X) != fit(X).transform(X): {d}")
                else:
                    self.count("fit_transform_checked")
            except Exception:  # noqa: BLE001
                self.count("fit_transform_twin_raised")
        # read results after a refit must equal the fresh twin's
        tw = m.get("twin")
        if tw is not None and meth != "fit_transform":
            try:
                p2, a2 = split_args(self.resolve(op["args"], fresh=True), meth)
                with self.env.op({k: v for k, v in (op.get("env") or {}).items() if k in ("rng",)} or None):
                    exp = getattr(tw, meth)(*p2, **a2)
                d = same(res, exp, path=meth)
                if d:
                    self.violate(
                        "refit_read_differs",
                        kind,
                        f"{meth}() after refit ({_hist(m)}) differs from the fresh estimator's: {d}",
                        method=meth,
                    )
                else:
                    self.count("refit_reads_checked")
            except Exception:  # noqa: BLE001
                self.count("twin_read_raised")

    def op_FN(self, op, i):
        fn = get_func(op["fn"])
        what = f"{op['fn']}()"
        a = self.resolve(op["args"])
        pos = a.pop("__pos__", [])
        # estimator / scaler objects handed to the function: fitting them is their documented
        # use, but their own hyper-parameters are the caller's and must come back unchanged -
        # also when the call fails
        est_args = {k: (v, {kk: freeze(vv) for kk, vv in v.get_params(deep=True).items()}) for k, v in a.items() if hasattr(v, "get_params")}

        def call():
            return fn(*pos, **a)

        def dry():
            a2 = self.resolve(op["args"], fresh=True)
            p2 = a2.pop("__pos__", [])
            return fn(*p2, **a2)


        res, exc, injected, out = self.guarded(
            call, op.get("env"), what, op["fn"], op["args"], target_for_dry=lambda: dry, sweep=lambda: (call, None)
        )
        self.check_heap(what, op["fn"], op["args"], exc)
        for k, (v, before) in est_args.items():
            try:
                now = {kk: freeze(vv) for kk, vv in v.get_params(deep=True).items()}
            except Exception:  # noqa: BLE001
                continue
            changed = sorted(kk for kk in set(before) | set(now) if before.get(kk) != now.get(kk))
            if changed:
                self.violate(
                    "argument_estimator_parameter_changed",
                    op["fn"],
                    f"{what}: hyper-parameter(s) {changed} of the caller's `{k}` object ({type(v).__name__}) differ after the call"
                    + (f" (the call raised {type(exc).__name__})" if exc is not None else ""),
                    after_exception=bool(exc is not None),
                )
        if exc is not None:
            self.log.add("FN", op["fn"], "raise", type(exc).__name__)
            self.count("ops_injected_failure" if injected else "fn_raised")
            if not injected:
                self.count(f"raised:{op['fn']}:{type(exc).__name__}:{str(exc)[:50]}")
            return
        self.count("ops_ok")
        self.log.add("FN", op["fn"], "ok")
        if isinstance(res, np.ndarray) and res.dtype != object:
            self.log.add(res)
        elif isinstance(res, (int, float, np.integer, np.floating)):
            self.log.add(res)
        if op.get("lane") is not None:
            # a private copy: what the caller got must be compared, not an object that later
            # calls may still write into (a returned array that aliases library state)
            self.results.setdefault(("fn", op["lane"]), []).append((op["fn"], copy.deepcopy(res), op.get("env")))

    def op_SET(self, op, i):
        """The caller re-parameterises a (possibly fitted) estimator between two fits:
        set_params(**kw) or plain attribute assignment. Legitimate, so the parameter
        snapshot is re-taken; the next refit is compared with a fresh estimator built
        with the merged parameters."""
        name = op["obj"]
        obj = self.objs.get(name)
        m = self.meta.get(name)
        if obj is None or m is None or m["retired"]:
            return
        kw = self.resolve(op["params"])
        try:
            if op.get("how") == "setattr" or not hasattr(obj, "set_params"):
                for k, v in kw.items():
                    setattr(obj, k, v)
            else:
                obj.set_params(**kw)
        except Exception as e:  # noqa: BLE001
            self.log.add("SET", name, "raise", type(e).__name__)
            self.count("set_raised")
            m["retired"] = True
            return
        m["params"] = dict(m["params"], **op["params"])
        raw = ctor_state(obj, m.get("ctor_names", ()))
        m["params0_raw"] = {k: _copy_param(v) for k, v in raw.items()}
        m["params0"] = {k: freeze(v) for k, v in raw.items()}
        m["reparam"] = sorted(op["params"])
        self.stats["fired"]["caller:reparameterised"] += 1
        self.log.add("SET", name, sorted(op["params"]))
        self.check_heap(f"set_params of {m['kind']}", m["kind"], op["params"])

    def op_POKE(self, op, i):
        """The caller edits a dict-valued hyper-parameter of one object in place."""
        obj = self.objs.get(op["obj"])
        m = self.meta.get(op["obj"])
        if obj is None or m is None or m["retired"]:
            return
        d = getattr(obj, op["param"], None)
        if not isinstance(d, dict):
            return
        d[op["key"]] = self.resolve(op["value"])
        m["retired"] = True  # this object's own results are no longer comparable with anything
        self.stats["fired"]["caller:edited_dict_parameter_in_place"] += 1
        self.log.add("POKE", op["obj"], op["param"], op["key"])

    def op_SNAP(self, op, i):
        """Remember the public fitted state of an object (deep copy)."""
        name = op["obj"]
        obj = self.objs.get(name)
        m = self.meta.get(name)
        if obj is None or m is None or m["retired"] or m.get("broken"):
            return
        try:
            m["snap_state"] = copy.deepcopy(public_state(obj))
        except Exception:  # noqa: BLE001
            m["snap_state"] = None

    def op_CHECKSNAP(self, op, i):
        """No fit happened since SNAP: reads, other objects' activity, a pickle round trip
        or the caller reusing its own buffers must not have changed the fitted state."""
        name = op["obj"]
        obj = self.objs.get(name)
        m = self.meta.get(name)
        if obj is None or m is None or m["retired"] or m.get("broken") or m.get("snap_state") is None:
            return
        a, b = m["snap_state"], public_state(obj)
        d = None
        if set(a) != set(b):
            d = f"attributes {sorted(set(a) ^ set(b))} appeared/disappeared"
        else:
            for k in sorted(a):
                d = same(a[k], b[k], rtol=1e-12, path=k)
                if d:
                    break
        if d:
            # observed, not a violation: C09 speaks about the results of calls (covered by the
            # repeated reads), not about raw attributes - e.g. PCov-CUR's X_ref_/y_ref_ are by
            # name references to the caller's arrays and follow them
            self.count("fitted_attribute_changed_without_fit_observed:" + str(op.get("between")))
        else:
            self.count("fitted_state_stable")

    def op_MUTATE(self, op, i):
        """The caller reuses one of its own buffers: new values, same array object."""
        vals = D.make_array(op["recipe"])
        if self.heap.mutate(op["h"], vals):
            self.stats["fired"]["caller:buffer_reused"] += 1
            self.log.add("MUTATE", op["h"])
            for m in self.meta.values():
                m["mutated"] = True
        else:
            self.count("mutate_skipped_readonly")

    def op_RESTART(self, op, i):
        name = op["obj"]
        obj = self.objs.get(name)
        if obj is None or self.meta[name]["retired"]:
            return
        try:
            self.objs[name] = pickle.loads(pickle.dumps(obj))
            self.stats["fired"]["restart:pickle"] += 1
            self.log.add("RESTART", name, "ok")
        except Exception as e:  # noqa: BLE001
            self.count("restart_not_picklable")
            self.log.add("RESTART", name, "raise", type(e).__name__)

    def _single_precision_fit(self, m):
        """Was the last fit of this object given float32 data?"""
        try:
            for v in m["fits"][-1]["args"].values():
                if isinstance(v, dict) and "$h" in v and self.heap.pristine(v["$h"]).dtype == np.float32:
                    return True
        except Exception:  # noqa: BLE001
            pass
        return False

    # ---- clause 4: repeatability under a moving environment
    def compare_lanes(self):
        groups = {}
        for name, m in self.meta.items():
            if m.get("lane") is not None and not m["retired"] and not m.get("broken") and m["fits"] and m["fits"][-1]["ok"]:
                groups.setdefault(m["lane"], []).append(name)
        for lane, names in groups.items():
            base = names[0]
            for other in names[1:]:
                self.count("repeat_pairs")
                ma, mb = self.meta[base], self.meta[other]
                if not self.comparable(base, ma["fits"][-1]["args"]):
                    continue
                a, b = public_state(self.objs[base]), public_state(self.objs[other])
                kind = ma["kind"]
                skip = set(ma.get("repeat_skip", []))
                EXTRA_ATOL[0] = 0.0
                rtol = 1e-6
                if self._single_precision_fit(ma):
                    # single-precision data is kept in single precision by the library
                    # (eps 1.2e-7): two executions that differ in the ARPACK start vector /
                    # update branch agree to ~eps32 x conditioning, not to 1e-6
                    rtol, SCALE_ATOL[0] = 1e-3, 1e-3
                    self.count("repeat_pairs_in_single_precision")
                if kind == "sample.VoronoiFPS" and any(
                    o["op"] == "NEW" and o["obj"] in (base, other) and o["params"].get("full_fraction") is None
                    for o in self.trace["ops"]
                ):
                    # The switching point was left to the timing calibration, which C06
                    # explicitly lets depend on the clock: the two repetitions may update the
                    # distance table through different branches (all distances recomputed vs.
                    # only the active cells'). What must agree is the selection and the table
                    # to rounding; new_dist_ is the scratch array of the last update (true
                    # distances to the last pick on one branch, a copy of the table with the
                    # active entries replaced on the other) and is not a result. The same
                    # distance computed by the two branches differs by the rounding allowance
                    # of the formula |x|^2+|s|^2-2x.s in the working precision (C06's tau).
                    skip.add("new_dist_")
                    try:
                        Xp = self.heap.pristine(ma["fits"][-1]["args"]["X"]["$h"])
                        from .refmodels import fps_tau

                        epsr = float(np.finfo(Xp.dtype).eps / np.finfo(float).eps) if Xp.dtype.kind == "f" else 1.0
                        EXTRA_ATOL[0] = fps_tau(np.asarray(Xp, dtype=float)) * epsr
                    except Exception:  # noqa: BLE001
                        EXTRA_ATOL[0] = 0.0
                    self.count("voronoi_calibrated_lanes_compared_modulo_update_branch")
                if set(a) != set(b):
                    self.violate("repeat_differs", kind, f"attributes {sorted(set(a) ^ set(b))} exist in one repetition only")
                    continue
                bad = None
                for k in sorted(a):
                    if k in skip:
                        continue
                    bad = same(a[k], b[k], rtol=rtol, path=k)
                    if bad:
                        break
                if bad is None:
                    for tag in sorted(set(ma["reads"]) & set(mb["reads"])):
                        bad = same(ma["reads"][tag], mb["reads"][tag], rtol=rtol, path=tag + "()")
                        if bad:
                            break
                EXTRA_ATOL[0] = 0.0
                SCALE_ATOL[0] = 1e-9
                if bad:
                    self.violate(
                        "repeat_differs",
                        kind,
                        f"the same call with the same inputs and random_state under another environment "
                        f"({_envs(ma)} vs {_envs(mb)}) gives a different result: {bad}",
                    )
                else:
                    self.count("repeat_equal")
        fns = {}
        for (k, lane), lst in self.results.items():
            fns.setdefault(lane, []).extend(lst)
        for lane, lst in fns.items():
            for x in lst[1:]:
                self.count("repeat_pairs")
                d = same(lst[0][1], x[1], rtol=1e-6, path=x[0])
                if d:
                    self.violate(
                        "repeat_differs",
                        x[0],
                        f"{x[0]}() repeated with the same inputs under another environment ({lst[0][2]} vs {x[2]}) differs: {d}",
                    )
                else:
                    self.count("repeat_equal")


PRIMARY = ("X", "K", "Knm", "T", "X_tr", "x1")


def split_args(a, meth=None):
    """The leading data argument is passed positionally, as callers do (scikit-learn
    wraps transform/fit_transform with a (self, X, *args, **kwargs) signature)."""
    a = dict(a)
    pos = list(a.pop("__pos__", []))
    if not pos and not (meth == "predict" and "T" in a):
        for k in PRIMARY:
            if k in a:
                pos = [a.pop(k)]
                break
    return pos, a


def _copy_param(v):
    if isinstance(v, np.ndarray):
        return v.copy()
    try:
        return copy.deepcopy(v)
    except Exception:  # noqa: BLE001
        return v


def _brief(v):
    if isinstance(v, np.ndarray):
        return f"array{v.shape} {np.array2string(v.ravel()[:4], precision=4)}"
    r = repr(v)
    return r if len(r) < 80 else r[:77] + "..."


def _hist(m):
    return " -> ".join(("fit" + ("" if f["ok"] else "!")) + "(" + ",".join(sorted(k for k in f["args"] if k != "__pos__")) + f"#{len(f['args'].get('__pos__', []))})" for f in m["fits"])


def _envs(m):
    e = m["fits"][-1].get("env") or {}
    return {k: (v.get("mode") or v.get("seed")) for k, v in e.items()}


def _transition(a, b, trace):
    """Name of a two-step history (A then B) for reach probes and known-finding facts."""

    def has(args, key):
        pos = args.get("__pos__", [])
        return key in args or (key == "y" and len(pos) > 1 and pos[1] is not None)

    def shape_of(args):
        pos = args.get("__pos__", [])
        ref = pos[0] if pos else next((v for v in args.values() if isinstance(v, dict) and "$h" in v), None)
        if isinstance(ref, dict) and "$h" in ref:
            spec = trace["heap"][ref["$h"]]
            return tuple(spec.get("shape") or D.make_array(spec).shape)
        return None

    parts = []
    ya, yb = has(a, "y"), has(b, "y")
    if ya and not yb:
        parts.append("with_y_to_without_y")
    elif yb and not ya:
        parts.append("without_y_to_with_y")
    wa, wb = "sample_weight" in a, "sample_weight" in b
    if wa and not wb:
        parts.append("weighted_to_unweighted")
    elif wb and not wa:
        parts.append("unweighted_to_weighted")
    sa, sb = shape_of(a), shape_of(b)
    if sa and sb:
        if sa == sb:
            parts.append("same_shape")
        elif sb[0] < sa[0] or sb[-1] < sa[-1]:
            parts.append("larger_to_smaller")
        else:
            parts.append("smaller_to_larger")
    return "+".join(parts) or "other"
