"""Small helpers: stable hashing, sub-seeds, exact float encoding, digests."""

import hashlib
import json
import struct

import numpy as np


def H(*parts) -> int:
    """Stable 63-bit hash of the parts (independent of PYTHONHASHSEED)."""
    h = hashlib.sha256()
    for p in parts:
        h.update(repr(p).encode())
        h.update(b"\x00")
    return int.from_bytes(h.digest()[:8], "big") >> 1


def subseed(seed, *parts) -> int:
    return H(seed, *parts) & 0x7FFFFFFF


def arr_to_hex(a):
    """Exact, platform independent encoding of a float/int/bool array."""
    a = np.asarray(a)
    if a.dtype.kind == "f":
        return {
            "dtype": "float64",
            "shape": list(a.shape),
            "hex": [float(v).hex() for v in a.astype(np.float64).ravel()],
        }
    if a.dtype.kind in "iu":
        return {"dtype": "int64", "shape": list(a.shape), "val": [int(v) for v in a.ravel()]}
    if a.dtype.kind == "b":
        return {"dtype": "bool", "shape": list(a.shape), "val": [bool(v) for v in a.ravel()]}
    raise TypeError(a.dtype)


def hex_to_arr(d):
    if d["dtype"] == "float64":
        a = np.array([float.fromhex(v) for v in d["hex"]], dtype=np.float64)
    elif d["dtype"] == "int64":
        a = np.array(d["val"], dtype=np.int64)
    else:
        a = np.array(d["val"], dtype=bool)
    return a.reshape(d["shape"])


class Digest:
    """Order-sensitive digest of an event log. Never reads clocks or PRNGs."""

    def __init__(self):
        self._h = hashlib.sha256()
        self.n = 0

    def add(self, *items):
        self.n += 1
        for it in items:
            self._add(it)
        self._h.update(b"\x01")

    def _add(self, it):
        h = self._h
        if it is None:
            h.update(b"N")
        elif isinstance(it, (bool, np.bool_)):
            h.update(b"T" if it else b"F")
        elif isinstance(it, (int, np.integer)):
            h.update(b"i" + str(int(it)).encode())
        elif isinstance(it, (float, np.floating)):
            h.update(b"f" + struct.pack("<d", float(it)))
        elif isinstance(it, str):
            h.update(b"s" + it.encode())
        elif isinstance(it, bytes):
            h.update(b"b" + it)
        elif isinstance(it, np.ndarray):
            h.update(b"a" + str(it.dtype).encode() + str(it.shape).encode())
            h.update(np.ascontiguousarray(it).tobytes())
        elif isinstance(it, (list, tuple)):
            h.update(b"[")
            for x in it:
                self._add(x)
            h.update(b"]")
        elif isinstance(it, dict):
            h.update(b"{")
            for k in sorted(it, key=str):
                self._add(str(k))
                self._add(it[k])
            h.update(b"}")
        else:
            h.update(b"r" + repr(it).encode())

    def hexdigest(self):
        return self._h.hexdigest()[:32]


def jdump(obj, path=None, **kw):
    s = json.dumps(obj, sort_keys=True, default=_jdefault, **kw)
    if path is None:
        return s
    with open(path, "w") as f:
        f.write(s)
        f.write("\n")
    return s


def _jdefault(o):
    if isinstance(o, np.integer):
        return int(o)
    if isinstance(o, np.floating):
        return float(o)
    if isinstance(o, np.bool_):
        return bool(o)
    if isinstance(o, np.ndarray):
        return o.tolist()
    if isinstance(o, (set, frozenset)):
        return sorted(o, key=str)
    return repr(o)


EPS = float(np.finfo(np.float64).eps)
